//! C15: the lossy ring buffer in front of the policy. Child of `crate::ring`.
#![allow(dead_code, unused_imports)]
use super::*;
use crate::policy::verif_harness::psync::{mk_policy, worker_try_recv};
use crate::policy::verif_harness::{any_slfu, any_tinylfu};
use crate::verif_env::{chan, mrec, pushrec, HS};
use crate::verif_nd::{self as nd, harness, vassert, vcover};

#[cfg(kani)]
use crate::verif_env::stubs;

harness! {
    [kani::unwind(8),
     kani::stub(std::sync::Arc::drop_slow, stubs::arc_drop_slow),
     kani::stub(parking_lot::RawMutex::lock_slow, stubs::mutex_lock_slow),
     kani::stub(parking_lot::RawMutex::unlock_slow, stubs::mutex_unlock_slow),
     kani::stub(crate::policy::LFUPolicy::push, pushrec::push)]
    fn c15_ring_batches() {
        // every buffer_items setting 0..3, up to 5 lookups of arbitrary keys, the policy answering
        // kept / dropped / error arbitrarily for every flushed batch
        let capa = nd::any_usize_in(0, 3);
        let n = nd::any_usize_in(1, 5);
        let keys = [nd::any_u64(), nd::any_u64(), nd::any_u64(), nd::any_u64(), nd::any_u64()];
        let m = Arc::new(mrec::make(false));
        let (s, _e) = any_slfu(0);
        let (p, w) = mk_policy(any_tinylfu(1, 6), s, m);
        let ring = RingStripe::new(Arc::new(p), capa);
        #[cfg(kani)]
        pushrec::reset();
        let c = if capa == 0 { 1 } else { capa };
        let mut i = 0;
        while i < n {
            ring.push(keys[i]);
            let buffered = ring.data.lock().len();
            vassert!(buffered < c, "after every lookup fewer than buffer_items keys stay buffered (a full batch is flushed at once)");
            vassert!(buffered == (i + 1) % c, "a batch is handed over exactly when the buffer reaches buffer_items, whatever the policy answers");
            i += 1;
        }
        // what was handed over, in order
        #[cfg(kani)]
        {
            let handed = pushrec::flat_len();
            vassert!(handed == (n / c) * c, "exactly the full batches were handed to the policy");
            vassert!(pushrec::batches() == n / c, "one hand-over per full batch");
            vassert!(pushrec::batches() == 0 || (pushrec::min_len() == c && pushrec::last_len() == c), "every batch holds exactly buffer_items keys (0 behaves like 1)");
            let mut j = 0;
            while j < handed {
                vassert!(pushrec::flat(j) == keys[j], "every looked-up key appears exactly once, in order, in the handed-over batches");
                j += 1;
            }
        }
        #[cfg(not(kani))]
        {
            // natively the real push enqueued the batches on the (undrained) bounded(3) queue
            let mut j = 0;
            while let Some(b) = worker_try_recv(&w) {
                for k in b {
                    vassert!(k == keys[j], "every looked-up key appears exactly once, in order, in the handed-over batches");
                    j += 1;
                }
            }
        }
        {
            let d = ring.data.lock();
            let handed = (n / c) * c;
            let mut j = 0;
            while j < d.len() {
                vassert!(d[j] == keys[handed + j], "keys not yet handed over are still buffered, in order");
                j += 1;
            }
        }
        vcover!(capa == 0 && n == 5, "buffer_items 0");
        vcover!(capa == 3 && n == 5, "buffer_items 3, one full batch and a partial one");
        vcover!(capa == 2 && n == 4, "two full batches");
        let _ = &w;
        std::mem::forget(ring);
        std::mem::forget(w);
    }
}
