//! C14: doorkeeper Bloom filter. Child of `crate::bbloom`: states are built by struct literal.
#![allow(dead_code, unused_imports)]
use super::*;
use crate::verif_nd::{self as nd, harness, vassert, vcover};

/// arbitrary filter of 2^exp bits (exp >= 6), arbitrary contents, given number of probes
pub(crate) fn any_bloom(exp: u64, set_locs: u64) -> Bloom {
    let words = 1usize << (exp - 6);
    let mut v = Vec::with_capacity(words);
    let mut i = 0;
    while i < words {
        v.push(nd::any_u64());
        i += 1;
    }
    let en = nd::any_u64();
    nd::assume(en < (1 << 60));
    Bloom {
        bitset: v,
        elem_num: en,
        size_exp: exp,
        size: (1u64 << exp) - 1,
        set_locs,
        shift: 64 - exp,
    }
}

pub(crate) fn empty_bloom(exp: u64, set_locs: u64) -> Bloom {
    let words = 1usize << (exp - 6);
    Bloom {
        bitset: vec![0; words],
        elem_num: 0,
        size_exp: exp,
        size: (1u64 << exp) - 1,
        set_locs,
        shift: 64 - exp,
    }
}

/// reference: bit `idx` of the bitset seen as little-endian words
fn ref_bit(words: &[u64], idx: usize) -> bool {
    (words[idx >> 6] >> (idx & 63)) & 1 == 1
}

/// Every one of the m bits is individually addressable: `set(i)` turns on exactly bit i.
/// (Structural premise of the false-positive bound: the filter really has m bits.)
fn bits_addressable<const EXP: u64>() {
    let mut b = any_bloom(EXP, 1);
    let m = 1usize << EXP;
    let i = nd::any_usize();
    let j = nd::any_usize();
    nd::assume(i < m && j < m);
    let bi = b.is_set(i);
    let bj = b.is_set(j);
    vassert!(bi == ref_bit(&b.bitset, i), "is_set(i) reads bit i of the bitset");
    b.set(i);
    vassert!(b.is_set(i), "set(i) makes is_set(i) true");
    vassert!(b.is_set(j) == (bj || j == i), "set(i) changes no other bit: every one of the m bits is individually addressable");
    vcover!(i >= 64 && j == i - 64 && !bj, "bits 64 apart");
    vcover!(i < 64 && j >= 448, "first and last word");
}

harness! {
    [kani::unwind(10)]
    fn c14_bits_addressable_512() {
        bits_addressable::<9>();
    }
}

/// Membership: no false negatives, monotone until reset, reset/clear empty the filter.
fn membership<const EXP: u64>() {
    let k = nd::any_u64_in(1, 8);
    let mut b = any_bloom(EXP, k);
    let h = nd::any_u64();
    let g = nd::any_u64();
    let cg = b.contains(g);
    let ch = b.contains(h);
    let op = nd::any_u8_in(0, 2);
    if op == 0 {
        b.add(h);
        vassert!(b.contains(h), "a hash that was added is reported present (no false negative)");
        vassert!(!cg || b.contains(g), "adding never removes another hash (bits are only set)");
        vcover!(!ch, "h was absent before");
        vcover!(!cg && b.contains(g) && g != h, "false positive created by the add");
    } else if op == 1 {
        let added = b.contains_or_add(h);
        vassert!(added == !ch, "contains_or_add returns true iff the hash was absent");
        vassert!(b.contains(h), "contains_or_add leaves the hash present");
        vassert!(!cg || b.contains(g), "contains_or_add never removes another hash");
        vcover!(added, "contains_or_add added");
        vcover!(!added, "contains_or_add found it");
    } else {
        if nd::any_bool() {
            b.reset();
        } else {
            b.clear();
        }
        vassert!(!b.contains(g), "reset/clear empties the filter completely");
        let mut w = 0;
        while w < b.bitset.len() {
            vassert!(b.bitset[w] == 0, "reset/clear zeroes every word");
            w += 1;
        }
        vcover!(cg, "g was present before the reset");
    }
    vassert!(b.bitset.len() == 1usize << (EXP - 6), "bitset length unchanged");
}

harness! {
    [kani::unwind(10)]
    fn c14_membership_512() {
        membership::<9>();
    }
}

harness! {
    [kani::unwind(10)]
    fn c14_membership_64() {
        membership::<6>();
    }
}

harness! {
    [kani::unwind(10)]
    fn c14_membership_128() {
        membership::<7>();
    }
}

/// `add(hash)` sets exactly the bits (h + i*l) & size for i < set_locs and nothing else.
fn add_sets_exactly<const EXP: u64>() {
    let k = nd::any_u64_in(1, 8);
    let mut b = any_bloom(EXP, k);
    let hash = nd::any_u64();
    let probe = nd::any_usize();
    nd::assume(probe < (1usize << EXP));
    let before = b.is_set(probe);
    let h = hash >> b.shift;
    let l = (hash << b.shift) >> b.shift;
    let mut hit = false;
    let mut i = 0;
    while i < k {
        if ((h + i * l) & b.size) as usize == probe {
            hit = true;
        }
        i += 1;
    }
    b.add(hash);
    vassert!(b.is_set(probe) == (before || hit), "add sets exactly the prescribed <= set_locs positions (h + i*l) & size");
    vcover!(hit && !before && probe >= 64, "a probe position beyond the first word is set");
    vcover!(!hit && !before, "an untouched position stays clear");
}

harness! {
    [kani::unwind(10)]
    fn c14_add_sets_exactly_512() {
        add_sets_exactly::<9>();
    }
}

/// sizing: `get_size(n)` is the smallest power of two >= max(n, 512) with its exponent; the integer
/// path of `Bloom::new` (ratio >= 1 means "number of probes") builds a consistent filter.
fn sizing() {
    let n = nd::any_u64_in(0, 1 << 16);
    let s = get_size(n);
    vassert!(s.size.is_power_of_two() && s.size == 1u64 << s.exp, "size is 2^exp");
    vassert!(s.size >= n && s.size >= 512, "size >= max(n, 512)");
    vassert!(s.size == 512 || s.size / 2 < n, "size is the smallest such power of two");
    vcover!(n == 513, "n just above 512");
    vcover!(n == 65536, "n == 2^16");
    let k = nd::any_u64_in(1, 8);
    let b = Bloom::new(n as usize, k as f64);
    vassert!(b.set_locs == k, "integer ratio is the number of probes");
    vassert!(b.size + 1 == s.size && b.size_exp == s.exp && b.shift == 64 - s.exp, "filter geometry matches get_size");
    vassert!(b.bitset.len() as u64 * 64 == b.size + 1, "the bitset has exactly size+1 bits");
}

harness! {
    [kani::unwind(19)]
    fn c14_sizing() {
        sizing();
    }
}
