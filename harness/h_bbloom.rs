//! harnesses mounted into the crate (see DESIGN.md 3.1)
#![allow(dead_code, unused_imports)]
