//! Bounded association-list model of `std::collections::HashMap`, used ONLY in Kani builds
//! (`cfg(all(transparencies_stretto_verif, kani))`), mounted as `crate::verif_kmap`.
//!
//! hashbrown's SSE2 group probing is intractable for CBMC (DESIGN.md section 1), so the crate's
//! `use std::collections::HashMap` lines are switched to this type under Kani. Contract modelled:
//! a finite map from keys to values; `insert` replaces and returns the previous value; iteration
//! yields every entry exactly once in slot order (pre-states place entries in arbitrary slots, so
//! every iteration order of <= CAP entries is covered). Exceeding CAP entries is `assume(false)`:
//! outside the claim. Native replay uses the real `HashMap`.
#![allow(dead_code)]

use std::collections::hash_map::RandomState;

pub const CAP: usize = 3;

pub struct HashMap<K, V, S = RandomState> {
    pub slots: [Option<(K, V)>; CAP],
    hasher: S,
}

impl<K, V> HashMap<K, V, RandomState> {
    pub fn new() -> Self {
        Self::with_hasher(RandomState::new())
    }
}

impl<K, V, S: Default> Default for HashMap<K, V, S> {
    fn default() -> Self {
        Self::with_hasher(S::default())
    }
}

impl<K, V, S> core::fmt::Debug for HashMap<K, V, S> {
    fn fmt(&self, _f: &mut core::fmt::Formatter<'_>) -> core::fmt::Result {
        Ok(())
    }
}

impl<K, V, S> HashMap<K, V, S> {
    pub fn with_hasher(hasher: S) -> Self {
        Self {
            slots: [None, None, None],
            hasher,
        }
    }

    pub fn from_slots(slots: [Option<(K, V)>; CAP], hasher: S) -> Self {
        Self { slots, hasher }
    }

    pub fn hasher(&self) -> &S {
        &self.hasher
    }

    pub fn len(&self) -> usize {
        let mut n = 0;
        let mut i = 0;
        while i < CAP {
            if self.slots[i].is_some() {
                n += 1;
            }
            i += 1;
        }
        n
    }

    pub fn is_empty(&self) -> bool {
        self.len() == 0
    }

    pub fn clear(&mut self) {
        let mut i = 0;
        while i < CAP {
            self.slots[i] = None;
            i += 1;
        }
    }

    pub fn iter(&self) -> Iter<'_, K, V> {
        Iter {
            slots: &self.slots,
            done: [false; CAP],
        }
    }

    pub fn retain<F: FnMut(&K, &mut V) -> bool>(&mut self, mut f: F) {
        let mut i = 0;
        while i < CAP {
            let keep = match &mut self.slots[i] {
                Some((k, v)) => f(k, v),
                None => true,
            };
            if !keep {
                self.slots[i] = None;
            }
            i += 1;
        }
    }
}

impl<K, V, S> HashMap<K, V, S> {
    /// slot access through a case split over CONCRETE indices: a reference into the slot array at
    /// a symbolic offset makes CBMC fall back to byte-level encodings of the whole array
    #[inline(always)]
    fn slot(&self, i: usize) -> &Option<(K, V)> {
        match i {
            0 => &self.slots[0],
            1 => &self.slots[1],
            _ => &self.slots[2],
        }
    }
    #[inline(always)]
    fn slot_mut(&mut self, i: usize) -> &mut Option<(K, V)> {
        match i {
            0 => &mut self.slots[0],
            1 => &mut self.slots[1],
            _ => &mut self.slots[2],
        }
    }
}

impl<K: Eq, V, S> HashMap<K, V, S> {
    fn find(&self, k: &K) -> Option<usize> {
        let mut i = 0;
        while i < CAP {
            if let Some((kk, _)) = &self.slots[i] {
                if kk == k {
                    return Some(i);
                }
            }
            i += 1;
        }
        None
    }

    pub fn get(&self, k: &K) -> Option<&V> {
        match self.find(k) {
            Some(i) => self.slot(i).as_ref().map(|(_, v)| v),
            None => None,
        }
    }

    pub fn get_mut(&mut self, k: &K) -> Option<&mut V> {
        match self.find(k) {
            Some(i) => self.slot_mut(i).as_mut().map(|(_, v)| v),
            None => None,
        }
    }

    pub fn contains_key(&self, k: &K) -> bool {
        self.find(k).is_some()
    }

    pub fn insert(&mut self, k: K, v: V) -> Option<V> {
        if let Some(i) = self.find(&k) {
            let old = self.slot_mut(i).take();
            *self.slot_mut(i) = Some((k, v));
            return old.map(|(_, v)| v);
        }
        let mut i = 0;
        while i < CAP {
            if self.slots[i].is_none() {
                self.slots[i] = Some((k, v));
                return None;
            }
            i += 1;
        }
        // more than CAP entries: outside the claim
        kani::assume(false);
        None
    }

    pub fn remove(&mut self, k: &K) -> Option<V> {
        match self.find(k) {
            Some(i) => self.slot_mut(i).take().map(|(_, v)| v),
            None => None,
        }
    }
}

pub struct Iter<'a, K, V> {
    slots: &'a [Option<(K, V)>; CAP],
    /// visited flags instead of a position: slot i is marked as soon as it is looked at, whether or
    /// not it is occupied, so `done[0]` is concretely true after the first call. With a symbolic
    /// position CBMC re-explores (infeasibly) the already returned slots - and the whole loop
    /// body of the caller with them - at every later call.
    done: [bool; CAP],
}

impl<'a, K, V> Iterator for Iter<'a, K, V> {
    type Item = (&'a K, &'a V);
    fn next(&mut self) -> Option<Self::Item> {
        let mut i = 0;
        while i < CAP {
            if !self.done[i] {
                self.done[i] = true;
                if let Some((k, v)) = &self.slots[i] {
                    return Some((k, v));
                }
            }
            i += 1;
        }
        None
    }
}
