//! C13 (TinyLFU step), C01 (SampledLFU step lemmas, room arithmetic). Child of `crate::policy`.
#![allow(dead_code, unused_imports)]
use super::*;
use crate::verif_env::{hm_from, HS};
use crate::verif_nd::{self as nd, harness, vassert, vcover};

pub(crate) const COST_MAX: i64 = 1 << 40;

// `policy::sync` is a private module: re-export what the cache-level harnesses need
#[cfg(feature = "sync")]
pub(crate) use super::sync::verif_harness as psync;
#[cfg(feature = "sync")]
pub(crate) use super::sync::PolicyProcessor;

#[cfg(feature = "async")]
pub(crate) use super::r#async::verif_harness as pasync;
#[cfg(feature = "async")]
pub(crate) use super::r#async::PolicyProcessor as AsyncPolicyProcessor;

/// the shared policy state, as `PolicyInner::with_hasher` + `collect_metrics` build it
pub(crate) fn inner_from(admit: TinyLFU, costs: SampledLFU<HS>, metrics: Arc<Metrics>) -> Arc<Mutex<PolicyInner<HS>>> {
    let mut costs = costs;
    costs.metrics = metrics;
    Arc::new(Mutex::new(PolicyInner { admit, costs }))
}

/// SampledLFU holding exactly the given entries (I-P holds by construction)
pub(crate) fn slfu_from(ents: [Option<(u64, i64)>; 3], max_cost: i64) -> SampledLFU<HS> {
    SampledLFU {
        samples: DEFAULT_SAMPLES,
        max_cost: AtomicI64::new(max_cost),
        used: ghost_sum(&ents),
        key_costs: hm_from(ents),
        metrics: Arc::new(Metrics::Noop),
    }
}

// ---------------------------------------------------------------------------------- TinyLFU

fn any_row(w: usize) -> crate::sketch::CountMinRow {
    crate::sketch::verif_harness::any_row(w)
}

/// arbitrary TinyLFU satisfying I-T (w < samples)
pub(crate) fn any_tinylfu(row_bytes: usize, dk_exp: u64) -> TinyLFU {
    let locs = nd::any_u64_in(1, 3);
    let samples = nd::any_usize_in(1, 1 << 32);
    let w = nd::any_usize();
    nd::assume(w < samples);
    TinyLFU {
        ctr: crate::sketch::verif_harness::any_sketch(row_bytes),
        doorkeeper: crate::bbloom::verif_harness::any_bloom(dk_exp, locs),
        samples,
        w,
    }
}

/// Uninterpreted-function stand-in for `TinyLFU::estimate` (Kani only): an arbitrary but fixed
/// popularity in [0, 16] per key, set by the harness. Used by the `add` harnesses whose subject
/// is the admission/eviction RULE (stated in terms of the estimator's values; `add` does not
/// modify the estimator); the estimator itself is decided by the C13 harnesses.
#[cfg(kani)]
pub(crate) mod estuf {
    pub static mut KEYS: [u64; 4] = [0; 4];
    pub static mut VALS: [i64; 4] = [0; 4];
    pub static mut N: usize = 0;
    pub static mut CALLS: usize = 0;
    pub fn set(i: usize, k: u64, v: i64) {
        unsafe {
            KEYS[i] = k;
            VALS[i] = v;
            if i + 1 > N {
                N = i + 1;
            }
        }
    }
    pub fn reset() {
        unsafe {
            N = 0;
            CALLS = 0;
        }
    }
    pub fn get(k: u64) -> i64 {
        unsafe {
            let mut i = 0;
            while i < 4 {
                if i < N && KEYS[i] == k {
                    return VALS[i];
                }
                i += 1;
            }
            0
        }
    }
    pub fn estimate(_t: &super::TinyLFU, kh: u64) -> i64 {
        unsafe {
            CALLS += 1;
        }
        get(kh)
    }
}

fn tinylfu_step(row_bytes: usize, dk_exp: u64) {
    let mut t = any_tinylfu(row_bytes, dk_exp);
    let k = nd::any_u64();
    let g = nd::any_u64();
    let ek = t.estimate(k);
    let eg = t.estimate(g);
    let ck = t.ctr.estimate(k);
    let cg = t.ctr.estimate(g);
    let dk = t.doorkeeper.contains(k);
    let w0 = t.w;
    vassert!(ek >= 0 && ek <= 16 && eg >= 0 && eg <= 16, "estimates are in [0,16]");
    if nd::any_bool() {
        t.increment(k);
        let reset_due = w0 + 1 >= t.samples;
        if !reset_due {
            vassert!(t.w == w0 + 1, "no reset: the sample counter advances by one");
            vassert!(t.estimate(k) == if ek < 16 { ek + 1 } else { 16 }, "recording a key raises its estimate by one, saturating at 15+1, never wrapping");
            vassert!(t.estimate(g) >= eg && t.estimate(g) <= eg + 1, "recording a key never lowers another key's estimate");
            vcover!(ek == 16, "saturated at 16");
            vcover!(!dk, "first sighting goes to the doorkeeper");
            vcover!(dk && ck == 3, "counter incremented");
        } else {
            vassert!(t.w == 0, "after samples recorded accesses the sample counter restarts");
            vassert!(!t.doorkeeper.contains(g) && !t.doorkeeper.contains(k), "aging reset empties the doorkeeper");
            let ck_after_inc = if dk { if ck < 15 { ck + 1 } else { 15 } } else { ck };
            vassert!(t.estimate(k) == ck_after_inc >> 1, "aging reset halves the (post-increment) counters");
            vassert!(t.estimate(g) <= (cg + 1) >> 1 && t.estimate(g) >= cg >> 1, "aging reset halves every other estimate");
            vcover!(ck == 15 && dk, "reset of a saturated counter");
            vcover!(t.samples == 1, "samples == 1 resets on every access");
        }
    } else {
        t.clear();
        vassert!(t.estimate(k) == 0 && t.estimate(g) == 0, "clear(): every key estimates zero");
        vassert!(t.w == 0, "clear(): sample counter restarts");
        vcover!(ek == 16, "clear of a saturated key");
    }
    vassert!(t.w < t.samples, "I-T preserved: w < samples");
}

harness! {
    [kani::unwind(10)]
    fn c13_tinylfu_step_w1() {
        tinylfu_step(1, 6);
    }
}

harness! {
    [kani::unwind(10)]
    fn c13_tinylfu_step_w4() {
        tinylfu_step(4, 9);
    }
}

harness! {
    [kani::unwind(10)]
    fn c13_tinylfu_batch() {
        // cleared estimator, batch of 4 hashes (as handed over by the ring buffer)
        let mut t = TinyLFU {
            ctr: crate::sketch::verif_harness::any_sketch(4),
            doorkeeper: crate::bbloom::verif_harness::any_bloom(9, 2),
            samples: nd::any_usize_in(5, 1 << 32),
            w: 0,
        };
        t.clear();
        let k = nd::any_u64();
        let b = [nd::any_u64(), nd::any_u64(), nd::any_u64(), nd::any_u64()];
        let mut n = 0i64;
        let mut i = 0;
        while i < 4 {
            if b[i] == k {
                n += 1;
            }
            i += 1;
        }
        t.increments(crate::verif_env::kv(&[b[0], b[1], b[2], b[3]]));
        vassert!(t.estimate(k) >= n, "after a batch is applied the estimate is at least the number of recorded accesses");
        vassert!(t.w == 4, "every key of the batch is counted toward the aging period");
        vcover!(n == 4, "same key four times");
        vcover!(n == 0 && t.estimate(k) > 0, "collision");
    }
}

harness! {
    [kani::unwind(10)]
    fn c13_tinylfu_batch_reset() {
        // a batch whose keys straddle the end of the aging period: every key of the batch is still
        // recorded (the ones after the reset count toward the new period)
        let samples = nd::any_usize_in(1, 3);
        let mut t = TinyLFU {
            ctr: crate::sketch::verif_harness::any_sketch(1),
            doorkeeper: crate::bbloom::verif_harness::any_bloom(6, 1),
            samples,
            w: 0,
        };
        t.clear();
        let b = [nd::any_u64(), nd::any_u64(), nd::any_u64(), nd::any_u64()];
        t.increments(crate::verif_env::kv(&[b[0], b[1], b[2], b[3]]));
        vassert!(t.w == 4 % samples, "every key of a batch is counted toward the aging period, also across an aging reset inside the batch");
        if 4 % samples != 0 {
            // the last key was recorded after the last reset
            vassert!(t.estimate(b[3]) >= 1, "a key recorded after the aging reset inside a batch is still recorded");
        } else {
            vassert!(!t.doorkeeper.contains(b[3]), "a reset at the end of the batch empties the doorkeeper");
        }
        vcover!(samples == 3, "reset inside the batch (period 3)");
        vcover!(samples == 2, "two resets inside the batch");
    }
}

/// `TinyLFU::new(n)`: the aging period is num_counters (not the sketch's rounded-up width).
/// `Bloom::new`'s float sizing cannot be decided by CBMC (nondeterministic libm model): the
/// doorkeeper is replaced by a literal filter in this harness.
#[cfg(kani)]
fn bloom_new_stub(_cap: usize, _ratio: f64) -> Bloom {
    crate::bbloom::verif_harness::empty_bloom(6, 1)
}
#[cfg(kani)]
fn rng_next_u64_stub(_r: &mut rand::rngs::StdRng) -> u64 {
    nd::any_u64()
}
#[cfg(kani)]
fn rng_from_seed_stub(_s: [u8; 32]) -> rand::rngs::StdRng {
    unsafe { std::mem::zeroed() }
}
#[cfg(kani)]
fn now_stub() -> std::time::SystemTime {
    std::time::UNIX_EPOCH + std::time::Duration::from_secs(nd::any_u64_in(0, 1 << 40))
}

#[cfg(kani)]
harness! {
    [kani::unwind(10),
     kani::stub(crate::bbloom::Bloom::new, bloom_new_stub),
     kani::stub(<rand::rngs::StdRng as rand::RngCore>::next_u64, rng_next_u64_stub),
     kani::stub(<rand::rngs::StdRng as rand::SeedableRng>::from_seed, rng_from_seed_stub),
     kani::stub(std::time::SystemTime::now, now_stub)]
    fn c13_tinylfu_new() {
        let n = nd::any_usize_in(1, 1 << 16);
        let t = TinyLFU::new(n);
        vassert!(t.is_ok(), "TinyLFU::new(n >= 1) is Ok");
        let mut t = t.unwrap();
        vassert!(t.samples == n && t.w == 0, "all counters are halved after every num_counters recorded accesses (the aging period is num_counters itself)");
        let k = nd::any_u64();
        vassert!(t.estimate(k) == 0, "on a fresh estimator every key estimates zero");
        t.increment(k);
        if n == 1 {
            vassert!(t.w == 0 && t.estimate(k) == 0, "with num_counters == 1 every access is followed by a reset");
        } else {
            vassert!(t.w == 1 && t.estimate(k) == 1, "one recorded access estimates one");
        }
        vcover!(n == 1, "num_counters 1");
        vcover!(n == 5, "non power of two");
        vcover!(n == 65536, "largest");
        std::mem::forget(t);
    }
}

// ---------------------------------------------------------------------------------- SampledLFU

/// Arbitrary SampledLFU with up to 3 residents in arbitrary slots satisfying I-P
/// (`used == sum of key_costs`, costs in [0, 2^40]); max_cost arbitrary in [-2^40, 2^40].
/// Returns the structure and the ghost copy of its entries.
pub(crate) fn any_slfu(n_max: usize) -> (SampledLFU<HS>, [Option<(u64, i64)>; 3]) {
    let mut ents: [Option<(u64, i64)>; 3] = [None, None, None];
    let mut sum = 0i64;
    let mut i = 0;
    while i < 3 {
        if i < n_max && nd::any_bool() {
            let k = nd::any_u64();
            let c = nd::any_i64_in(0, COST_MAX);
            let mut j = 0;
            while j < i {
                if let Some((kj, _)) = ents[j] {
                    nd::assume(kj != k);
                }
                j += 1;
            }
            ents[i] = Some((k, c));
            sum += c;
        }
        i += 1;
    }
    let mc = nd::any_i64_in(-COST_MAX, COST_MAX);
    let s = SampledLFU {
        samples: DEFAULT_SAMPLES,
        max_cost: AtomicI64::new(mc),
        used: sum,
        key_costs: hm_from(ents),
        metrics: Arc::new(Metrics::Noop),
    };
    (s, ents)
}

pub(crate) fn ghost_get(e: &[Option<(u64, i64)>; 3], k: u64) -> Option<i64> {
    let mut i = 0;
    while i < 3 {
        if let Some((kk, c)) = e[i] {
            if kk == k {
                return Some(c);
            }
        }
        i += 1;
    }
    None
}

pub(crate) fn ghost_sum(e: &[Option<(u64, i64)>; 3]) -> i64 {
    let mut s = 0;
    let mut i = 0;
    while i < 3 {
        if let Some((_, c)) = e[i] {
            s += c;
        }
        i += 1;
    }
    s
}

/// I-P on the real structure, with the residents enumerated through the real map
pub(crate) fn slfu_sum<S: BuildHasher + Clone + 'static>(s: &SampledLFU<S>) -> (i64, usize, bool) {
    let mut sum = 0i64;
    let mut n = 0;
    let mut nonneg = true;
    for (_, c) in s.key_costs.iter() {
        sum += *c;
        n += 1;
        if *c < 0 {
            nonneg = false;
        }
    }
    (sum, n, nonneg)
}

harness! {
    [kani::unwind(5)]
    fn c01_slfu_step() {
        let (mut s, ents) = any_slfu(3);
        let n0 = s.key_costs.len();
        let k = nd::any_u64();
        let g = nd::any_u64();
        nd::assume(g != k);
        let c = nd::any_i64_in(0, COST_MAX);
        let before_k = ghost_get(&ents, k);
        let before_g = ghost_get(&ents, g);
        let used0 = s.used;
        let op = nd::any_u8_in(0, 3);
        if op == 0 {
            // increment is only ever called for a key that is not resident (add() checks update() first)
            nd::assume(before_k.is_none() && n0 < 3);
            s.increment(k, c);
            vassert!(s.used == used0 + c, "increment charges exactly the given cost");
            vassert!(s.key_costs.get(&k) == Some(&c), "increment records the per-entry charge");
            vcover!(n0 == 2, "third resident added");
        } else if op == 1 {
            let r = s.remove(&k);
            vassert!(r == before_k, "remove returns the charge of the removed entry, if any");
            vassert!(s.used == used0 - before_k.unwrap_or(0), "remove releases exactly that entry's charge");
            vassert!(!s.contains(&k), "removed key is no longer charged");
            vcover!(before_k.is_some(), "removed a resident");
            vcover!(before_k.is_none(), "removed an absent key");
        } else if op == 2 {
            let r = s.update(&k, c);
            vassert!(r == before_k.is_some(), "update reports whether the key is resident");
            if r {
                vassert!(s.used == used0 + c - before_k.unwrap(), "update re-charges the difference");
                vassert!(s.key_costs.get(&k) == Some(&c), "update replaces the per-entry charge");
            } else {
                vassert!(s.used == used0 && !s.contains(&k), "update of an absent key changes nothing");
            }
            vcover!(r && c < before_k.unwrap(), "cost lowered");
            vcover!(r && c > before_k.unwrap(), "cost raised");
        } else {
            s.clear();
            vassert!(s.used == 0 && s.key_costs.len() == 0, "clear releases everything");
            vcover!(n0 == 3, "clear of three residents");
        }
        if op != 3 {
            vassert!(s.key_costs.get(&g).copied() == before_g, "other entries' charges are untouched");
        }
        let (sum, _n, nonneg) = slfu_sum(&s);
        vassert!(s.used == sum, "I-P: charged total equals the sum of the per-entry charges");
        vassert!(nonneg, "I-P: every charge is non-negative");
    }
}

harness! {
    [kani::unwind(5)]
    fn c01_room_arith() {
        let (s, _ents) = any_slfu(3);
        let c = nd::any_i64_in(0, COST_MAX);
        let mc = s.get_max_cost();
        vassert!((s.room_left(c) >= 0) == (s.used + c <= mc), "room_left(c) >= 0 iff used + c <= max_cost");
        vassert!(s.room_left(c) == mc - s.used - c, "room_left is max_cost - (used + cost)");
        let m2 = nd::any_i64_in(-COST_MAX, COST_MAX);
        s.update_max_cost(m2);
        vassert!(s.get_max_cost() == m2, "update_max_cost takes effect immediately");
        vassert!((s.room_left(c) >= 0) == (s.used + c <= m2), "the next room computation uses the new max_cost");
        vcover!(m2 < mc && s.used > m2, "max_cost lowered below the charged total");
        vcover!(s.room_left(c) == 0, "exact fit");
    }
}
