//! C19: the processor / cleanup code of the ASYNC flavour (`cache/async.rs`,
//! `try_cleanup_async`), instantiated on the same kind of parked fixture as the sync flavour.
//! The async client methods and task loops (executor, wakers, futures::select!) cannot be
//! executed by Kani and are outside. Child of `crate::cache::async`; needs features sync+async.
#![allow(dead_code, unused_imports)]
use super::*;
#[cfg(feature = "sync")]
mod both {
    use super::*;
    use crate::policy::verif_harness::pasync::mk_policy_async;
    use crate::policy::verif_harness::{any_tinylfu, slfu_from, COST_MAX};
    use crate::store::verif_harness::{any_ent, raw, store_from, GEnt, NdValidator, Store};
    use crate::ttl::verif_harness::{self as th, any_duration, time_at};
    use crate::verif_env::rec::{RecCb, NT};
    use crate::verif_env::{clock, mrec, HS};
    use crate::verif_nd::{self as nd, harness, vassert, vcover};

    #[cfg(kani)]
    use crate::verif_env::stubs;

    pub(crate) type AProc = CacheProcessor<u64, NdValidator, RecCb, HS>;

    pub(crate) struct AParked {
        pub proc_: AProc,
        pub cb: Arc<RecCb>,
        pub store: Arc<Store>,
        pub policy: Arc<AsyncLFUPolicy<HS>>,
        pub metrics: Arc<Metrics>,
    }

    /// the async processor wired as `AsyncCacheBuilder::finalize` wires it, no task spawned
    pub(crate) fn park_async(store: Store, ents: [Option<(u64, i64)>; 3], ignore_internal_cost: bool, metrics_on: bool) -> AParked {
        let (_buf_tx, buf_rx) = bounded::<Item<u64>>(2);
        let (_stop_tx, stop_rx) = stop_channel();
        let (_clear_tx, clear_rx) = unbounded::<()>();
        let store = Arc::new(store);
        let metrics = Arc::new(mrec::make(metrics_on));
        let (policy, worker) = mk_policy_async(any_tinylfu(1, 6), slfu_from(ents, nd::any_i64_in(-COST_MAX, COST_MAX)), metrics.clone());
        let policy = Arc::new(policy);
        let callback = Arc::new(RecCb::new());
        let proc_ = CacheProcessor::new(
            100000,
            ignore_internal_cost,
            Duration::from_millis(500),
            store.clone(),
            policy.clone(),
            buf_rx,
            stop_rx,
            clear_rx,
            metrics.clone(),
            callback.clone(),
        );
        std::mem::forget((_buf_tx, _stop_tx, _clear_tx, worker));
        AParked { proc_, cb: callback, store, policy, metrics }
    }

    fn any_aparked(ttl: u8) -> (AParked, Option<GEnt>, [Option<(u64, i64)>; 3], bool) {
        let now = clock::set_nd(1000, th::SECS_MAX);
        let mut a = if nd::any_bool() { Some(any_ent(now, ttl, 4)) } else { None };
        if let Some(x) = a.as_mut() {
            x.val = 0;
        }
        let store = store_from(a, None, None, NdValidator::new(Some(true)));
        let mut ents: [Option<(u64, i64)>; 3] = [None, None, None];
        if let Some(x) = a {
            ents[0] = Some((x.key, nd::any_i64_in(0, COST_MAX)));
        }
        let ignore = nd::any_bool();
        (park_async(store, ents, ignore, true), a, ents, ignore)
    }

    macro_rules! async_harness {
        ([$($k:meta),* $(,)?] fn $name:ident() $body:block) => {
            harness! {
                [kani::stub(std::sync::Arc::drop_slow, stubs::arc_drop_slow),
                 kani::stub(parking_lot::RawMutex::lock_slow, stubs::mutex_lock_slow),
                 kani::stub(parking_lot::RawMutex::unlock_slow, stubs::mutex_unlock_slow),
                 kani::stub(parking_lot::RawRwLock::lock_shared_slow, stubs::rw_lock_shared_slow),
                 kani::stub(parking_lot::RawRwLock::lock_exclusive_slow, stubs::rw_lock_exclusive_slow),
                 kani::stub(parking_lot::RawRwLock::unlock_shared_slow, stubs::rw_unlock_shared_slow),
                 kani::stub(parking_lot::RawRwLock::unlock_exclusive_slow, stubs::rw_unlock_exclusive_slow),
                 kani::stub(crate::metrics::Metrics::add, mrec::add),
                 kani::stub(crate::metrics::Metrics::is_op, mrec::is_op),
                 kani::stub(crate::metrics::Metrics::track_eviction, mrec::track_eviction),
                 kani::stub(std::fmt::format, stubs::fmt_format),
                 $($k),*]
                fn $name() $body
            }
        };
    }

    async_harness! {
        [kani::unwind(6)]
        fn c19_async_proc_update_delete() {
            // the async processor's Update / Delete arms satisfy the same assertions as the sync ones
            let (mut p, a, ents, ignore) = any_aparked(0);
            let k = nd::any_u64();
            let before = raw(&p.store, k);
            let isz = if ignore { 0 } else { p.store.item_size() as i64 };
            if nd::any_bool() {
                let cost = nd::any_i64_in(0, COST_MAX);
                let ext = nd::any_i64_in(0, COST_MAX);
                let r = p.proc_.handle_insert_event(Ok(Item::Update { key: k, cost, external_cost: ext }));
                vassert!(r.is_ok(), "handling an Update item does not fail");
                if before.is_some() {
                    vassert!(p.policy.cost(&k) == cost + ext + isz, "an update re-charges the entry with the new cost plus internal overhead");
                } else {
                    vassert!(!p.policy.contains(&k), "an Update for an absent key charges nothing");
                }
                vassert!(raw(&p.store, k) == before && p.cb.all() == 0, "an Update item touches neither the store nor the callbacks");
                vcover!(before.is_some(), "update of a resident");
            } else {
                let r = p.proc_.handle_insert_event(Ok(Item::Delete { key: k, conflict: 0 }));
                vassert!(r.is_ok(), "handling a Delete item does not fail");
                vassert!(raw(&p.store, k).is_none() && !p.policy.contains(&k), "after a Delete the key is neither resident nor charged");
                match before {
                    Some(e) => vassert!(p.cb.exits(e.val) == 1 && p.cb.all() == 1, "the removed value is handed to on_exit exactly once"),
                    None => vassert!(p.cb.all() == 0, "deleting an absent key triggers no callback"),
                }
                vcover!(before.is_some(), "delete of a resident");
            }
            if let Some(e) = a {
                if e.key != k {
                    vassert!(raw(&p.store, e.key) == Some(e) && p.policy.cost(&e.key) == ents[0].unwrap().1, "other entries are untouched");
                }
            }
            let _ = &mut p;
            std::mem::forget(p);
        }
    }

    async_harness! {
        [kani::unwind(5),
         kani::stub(crate::ttl::ExpirationMap::try_cleanup, crate::ttl::verif_harness::emrec::try_cleanup)]
        fn c19_async_tick() {
            // the async cleanup (handle_cleanup_event -> try_cleanup_async) for an ARBITRARY listing
            // handed out by the expiry index: only entries whose own TTL has elapsed are reclaimed,
            // each through on_evict once with its charged cost
            let now0 = clock::set_nd(1000, th::SECS_MAX);
            let mut e = any_ent(now0, 2, 4);
            e.val = 0;
            let resident = nd::any_bool();
            let hand_out = nd::any_bool();
            let lk = nd::any_u64();
            let lc = nd::any_u64();
            #[cfg(kani)]
            let listing = None;
            #[cfg(not(kani))]
            let listing = if hand_out { Some((now0.as_secs() as i64, lk, lc)) } else { None };
            let store = crate::store::verif_harness::store_from_opt(if resident { Some(e) } else { None }, None, listing, NdValidator::new(Some(true)), false);
            let charge = nd::any_i64_in(0, COST_MAX);
            let mut p = park_async(store, [if resident { Some((e.key, charge)) } else { None }, None, None], nd::any_bool(), true);
            #[cfg(kani)]
            crate::ttl::verif_harness::emrec::set(hand_out, lk, lc);
            let now = clock::advance_nd(6);
            let r = p.proc_.handle_cleanup_event();
            vassert!(r.is_ok(), "the cleanup event does not fail");
            if resident {
                let still = raw(&p.store, e.key).is_some();
                let elapsed = !e.exp.is_zero() && now >= th::deadline(&e.exp);
                vassert!(still || elapsed, "cleanup never removes an entry whose TTL has not elapsed (or that has none), whatever the expiry index hands out");
                vassert!(still == (p.cb.total(0) == 0), "resident or handed to exactly one callback");
                vassert!(still == p.policy.contains(&e.key), "resident iff charged after the tick");
                if !still {
                    vassert!(p.cb.evicts(0) == 1 && p.cb.cost_of(0) == charge, "an expired value goes to on_evict exactly once with its charged cost");
                }
                if hand_out && lk == e.key && (lc == 0 || lc == e.conflict) && elapsed {
                    vassert!(!still, "an elapsed entry handed out by the expiry index is reclaimed");
                }
                vcover!(!still, "entry reclaimed");
                vcover!(still && hand_out && lk == e.key && e.exp.is_zero(), "a listing of an entry without TTL is handed out");
            } else {
                vassert!(p.cb.all() == 0, "nothing is reported for keys that are not resident");
                vcover!(hand_out, "stale listing of an absent key");
            }
            std::mem::forget(p);
        }
    }

    #[cfg(kani)]
    async_harness! {
        [kani::unwind(6),
         kani::stub(crate::policy::AsyncLFUPolicy::add, crate::policy::verif_harness::pasync::add_wiring_async),
         kani::stub(crate::store::ShardedMap::try_insert, crate::store::verif_harness::storerec::try_insert),
         kani::stub(crate::store::ShardedMap::try_remove, crate::store::verif_harness::storerec::try_remove)]
        fn c19_async_new_wiring() {
            // the New arm of the async processor issues the same store operations and callbacks
            use crate::policy::verif_harness::psync as ps;
            use crate::store::verif_harness::storerec as sr;
            let (mut p, _a, _ents, ignore) = any_aparked(0);
            unsafe {
                ps::ADD_CALLS = 0;
                ps::ADD_KEY_RESIDENT = false;
            }
            sr::reset();
            let k = nd::any_u64();
            let conflict = nd::any_u64();
            let cost = nd::any_i64_in(0, COST_MAX);
            let d = any_duration(4);
            let isz = if ignore { 0 } else { p.store.item_size() as i64 };
            let r = p.proc_.handle_insert_event(Ok(Item::New { key: k, conflict, cost, value: 2, expiration: time_at(clock::get(), d) }));
            vassert!(r.is_ok(), "handling a New item does not fail");
            unsafe {
                vassert!(ps::ADD_CALLS == 1 && ps::ADD_KEY == k && ps::ADD_COST == cost + isz, "the policy is asked once with cost plus internal overhead unless ignored");
                if ps::ADD_OUT_ADDED {
                    vassert!(sr::INSERTS == 1 && sr::INS_KEY == k && sr::INS_CONFLICT == conflict && sr::INS_VAL == 2, "an admitted item is stored exactly once");
                    vassert!(p.cb.total(2) == 0, "an admitted value is not handed to any callback");
                } else {
                    vassert!(sr::INSERTS == 0 && p.cb.rejects(2) == 1 && p.cb.total(2) == 1 && p.cb.cost_of(2) == cost + isz, "a refused value goes to on_reject once with the charged cost");
                }
                let n = ps::ADD_OUT_N;
                vassert!(sr::REMOVES == n, "every victim reported by the policy is removed from the store, whether or not the newcomer was admitted");
                let mut evicted = [0u8; 2];
                let mut i = 0;
                while i < n {
                    vassert!(sr::REM_KEYS[i] == ps::ADD_OUT_KEYS[i] && sr::REM_CONFLICTS[i] == 0, "victims are removed by index hash, in the reported order");
                    if sr::REM_FOUND[i] {
                        evicted[sr::REM_VALS[i] as usize] += 1;
                    }
                    i += 1;
                }
                vassert!(p.cb.evicts(0) == evicted[0] && p.cb.evicts(1) == evicted[1], "every victim found in the store is handed to on_evict exactly once");
                vcover!(!ps::ADD_OUT_ADDED && n == 2, "rejected after two evictions");
                vcover!(ps::ADD_OUT_ADDED && n == 0, "admitted without victims");
            }
            std::mem::forget(p);
        }
    }

    // --------------------------------------------------------------------------------------------
    // The async CLIENT methods. An `async fn` of AsyncCache is a state machine whose only suspension
    // points are the `send(..).await` on the insert buffer / clear channel. async_channel's `Send`
    // future first calls `Sender::try_send` and completes at once when that succeeds; `try_send`
    // is replaced by the same bounded-FIFO contract as for crossbeam, so ONE poll with a no-op
    // waker runs the whole method whenever the buffer has room (the case the harness sets up; a
    // full buffer means "suspended until the processor takes an item", which is outside).
    // --------------------------------------------------------------------------------------------
    pub(crate) mod achan {
        //! Under Kani: the bounded-FIFO contract behind `async_channel::Sender::try_send` (stub) and the
        //! harness-side view of it. Natively (replay): the same questions asked of the real channel.
        use async_channel::{Receiver, Sender, TrySendError};
        pub const QMAX: usize = 2;
        #[cfg(kani)]
        static mut Q_PTR: [*mut u8; QMAX] = [std::ptr::null_mut(); QMAX];
        #[cfg(kani)]
        static mut Q_LEN: usize = 0;
        #[cfg(kani)]
        static mut U_LEN: usize = 0;
        // the policy's (unbounded) channel of access batches: told apart from the insert buffer by
        // the message size (asserted to differ in the harness that uses both)
        #[cfg(kani)]
        static mut B_PTR: [*mut u8; QMAX] = [std::ptr::null_mut(); QMAX];
        #[cfg(kani)]
        static mut B_LEN: usize = 0;
        pub fn reset() {
            #[cfg(kani)]
            unsafe {
                Q_LEN = 0;
                U_LEN = 0;
                B_LEN = 0;
            }
        }
        pub fn batch_size() -> usize {
            std::mem::size_of::<crate::verif_env::KVec<u64>>()
        }
        /// number of access batches handed to the policy's channel (Kani only: natively the
        /// receiving end is private to the policy's worker)
        #[cfg(kani)]
        pub fn batches() -> usize {
            unsafe { B_LEN }
        }
        /// take the oldest access batch
        #[cfg(kani)]
        pub fn take_batch<T>() -> Option<T> {
            unsafe {
                if B_LEN == 0 {
                    return None;
                }
                let p = B_PTR[0];
                B_PTR[0] = B_PTR[1];
                B_LEN -= 1;
                Some(*Box::from_raw(p as *mut T))
            }
        }
        /// number of items in the insert buffer
        pub fn len<T>(_tx: &Sender<T>) -> usize {
            #[cfg(kani)]
            unsafe {
                Q_LEN
            }
            #[cfg(not(kani))]
            _tx.len()
        }
        /// make the insert buffer full (the filler items are never looked at)
        pub fn fill<T>(_tx: &Sender<T>, mut _filler: impl FnMut() -> T) {
            #[cfg(kani)]
            unsafe {
                Q_LEN = QMAX
            }
            #[cfg(not(kani))]
            while _tx.try_send(_filler()).is_ok() {}
        }
        /// number of pending clear signals
        pub fn signals(_rx: &Receiver<()>) -> usize {
            #[cfg(kani)]
            unsafe {
                U_LEN
            }
            #[cfg(not(kani))]
            _rx.len()
        }
        #[cfg(kani)]
        pub fn try_send<T>(_s: &Sender<T>, msg: T) -> Result<(), TrySendError<T>> {
            unsafe {
                if std::mem::size_of::<T>() == 0 {
                    U_LEN += 1;
                    std::mem::forget(msg);
                    return Ok(());
                }
                if std::mem::size_of::<T>() == batch_size() {
                    // unbounded: never full (more than QMAX pending batches is outside the model)
                    if B_LEN >= QMAX {
                        kani::assume(false);
                    }
                    B_PTR[B_LEN] = Box::into_raw(Box::new(msg)) as *mut u8;
                    B_LEN += 1;
                    return Ok(());
                }
                if Q_LEN >= QMAX {
                    return Err(TrySendError::Full(msg));
                }
                Q_PTR[Q_LEN] = Box::into_raw(Box::new(msg)) as *mut u8;
                Q_LEN += 1;
                Ok(())
            }
        }
        /// take the oldest queued item (harness side; the processor's recv loop is not run)
        pub fn take<T>(_rx: &Receiver<T>) -> Option<T> {
            #[cfg(kani)]
            unsafe {
                if Q_LEN == 0 {
                    return None;
                }
                let p = Q_PTR[0];
                Q_PTR[0] = Q_PTR[1];
                Q_LEN -= 1;
                Some(*Box::from_raw(p as *mut T))
            }
            #[cfg(not(kani))]
            _rx.try_recv().ok()
        }
    }

    /// futures::select! shuffles its array of futures before polling them (fairness); every select!
    /// on the paths decided here has ONE future (plus `default`), for which the identity is the only
    /// permutation. (The real shuffle seeds a thread-local xorshift from SipHash at first use.)
    #[cfg(kani)]
    pub(crate) fn shuffle_one<T>(slice: &mut [T]) {
        assert!(slice.len() <= 1, "VERIF: select! over more than one future reached");
    }

    pub(crate) fn poll_once<F: std::future::Future>(f: F) -> Option<F::Output> {
        let mut f = std::pin::pin!(f);
        let mut cx = std::task::Context::from_waker(std::task::Waker::noop());
        match f.as_mut().poll(&mut cx) {
            std::task::Poll::Ready(x) => Some(x),
            std::task::Poll::Pending => None,
        }
    }

    pub(crate) type ACache = AsyncCache<u64, u64, crate::TransparentKeyBuilder<u64>, crate::verif_env::rec::TabCoster, NdValidator, RecCb, HS>;

    /// the async cache wired as `AsyncCacheBuilder::finalize` wires it, around a parked processor
    pub(crate) fn park_async_cache(store: Store, ents: [Option<(u64, i64)>; 3], ignore_internal_cost: bool, metrics_on: bool, buffer_items: usize) -> (ACache, AParked) {
        let (buf_tx, buf_rx) = bounded::<Item<u64>>(2);
        let (stop_tx, stop_rx) = stop_channel();
        let (clear_tx, clear_rx) = unbounded::<()>();
        let store = Arc::new(store);
        let metrics = Arc::new(mrec::make(metrics_on));
        let (policy, worker) = mk_policy_async(any_tinylfu(1, 6), slfu_from(ents, nd::any_i64_in(-COST_MAX, COST_MAX)), metrics.clone());
        let policy = Arc::new(policy);
        let callback = Arc::new(RecCb::new());
        let proc_ = CacheProcessor::new(100000, ignore_internal_cost, Duration::from_millis(500), store.clone(), policy.clone(), buf_rx, stop_rx, clear_rx, metrics.clone(), callback.clone());
        let coster = Arc::new(crate::verif_env::rec::TabCoster { tab: [1; NT], calls: std::sync::atomic::AtomicU8::new(0) });
        let cache = AsyncCache {
            store: store.clone(),
            policy: policy.clone(),
            get_buf: Arc::new(crate::ring::AsyncRingStripe::new(policy.clone(), buffer_items)),
            insert_buf_tx: buf_tx,
            callback: callback.clone(),
            key_to_hash: Arc::new(crate::TransparentKeyBuilder::<u64>::default()),
            stop_tx,
            clear_tx,
            is_closed: Arc::new(AtomicBool::new(false)),
            coster,
            metrics: metrics.clone(),
            _marker: Default::default(),
        };
        std::mem::forget(worker);
        achan::reset();
        (cache, AParked { proc_, cb: callback, store, policy, metrics })
    }

    async_harness! {
        [kani::unwind(6),
         kani::stub(async_channel::Sender::try_send, achan::try_send)]
        fn c19_async_client_remove() {
            // AsyncCache::try_remove: the entry leaves the store at once, its value goes to on_exit
            // once, and a Delete for (index, conflict) is queued WHETHER OR NOT the key was
            // resident (an insert of that key may still be buffered) - as the sync remove does
            let now = clock::set_nd(1000, th::SECS_MAX);
            let mut a = if nd::any_bool() { Some(any_ent(now, 0, 4)) } else { None };
            if let Some(x) = a.as_mut() {
                x.val = 0;
                x.conflict = 0;
            }
            let store = store_from(a, None, None, NdValidator::new(Some(true)));
            let mut ents: [Option<(u64, i64)>; 3] = [None, None, None];
            if let Some(x) = a {
                ents[0] = Some((x.key, nd::any_i64_in(0, COST_MAX)));
            }
            let (cache, mut p) = park_async_cache(store, ents, nd::any_bool(), false, 64);
            let k = nd::any_u64();
            let before = raw(&p.store, k);
            let r = poll_once(cache.try_remove(&k));
            vassert!(matches!(r, Some(Ok(()))), "try_remove completes without suspending when the insert buffer has room");
            vassert!(raw(&p.store, k).is_none(), "the key is gone from the store as soon as remove returns");
            match before {
                Some(e) => vassert!(p.cb.exits(e.val) == 1 && p.cb.all() == 1, "the removed value is handed to on_exit exactly once"),
                None => vassert!(p.cb.all() == 0, "removing an absent key triggers no callback"),
            }
            vassert!(achan::len(&cache.insert_buf_tx) == 1, "remove queues exactly one item, also for a key that is not resident (a buffered insert of it may be pending)");
            match achan::take(&p.proc_.insert_buf_rx) {
                Some(Item::Delete { key, conflict }) => vassert!(key == k && conflict == 0, "the queued item is the Delete for that key's (index, conflict)"),
                _ => vassert!(false, "the queued item is a Delete"),
            }
            vcover!(before.is_some(), "remove of a resident");
            vcover!(before.is_none(), "remove of an absent key");
            std::mem::forget(cache);
            std::mem::forget(p);
        }
    }

    #[cfg(kani)]
    async_harness! {
        [kani::unwind(6),
         kani::stub(async_channel::Sender::try_send, achan::try_send),
         kani::stub(crate::store::ShardedMap::try_remove, crate::store::verif_harness::storerec::try_remove)]
        fn c19_async_client_remove_wiring() {
            // AsyncCache::try_remove between a store recorder (found / not found as the solver
            // chooses) and the FIFO contract: the store is asked once for (index, conflict), a found
            // value goes to on_exit once, and a Delete is queued in BOTH cases
            use crate::store::verif_harness::storerec as sr;
            clock::set_nd(1000, th::SECS_MAX);
            let store = store_from(None, None, None, NdValidator::new(Some(true)));
            let (cache, p) = park_async_cache(store, [None, None, None], nd::any_bool(), false, 64);
            sr::reset();
            let k = nd::any_u64();
            let r = poll_once(cache.try_remove(&k));
            vassert!(matches!(r, Some(Ok(()))), "try_remove completes without suspending when the insert buffer has room");
            unsafe {
                vassert!(sr::REMOVES == 1 && sr::REM_KEYS[0] == k && sr::REM_CONFLICTS[0] == 0, "the store is asked once to remove exactly (index, conflict) of the key");
                if sr::REM_FOUND[0] {
                    vassert!(p.cb.exits(sr::REM_VALS[0]) == 1 && p.cb.all() == 1, "the removed value is handed to on_exit exactly once");
                } else {
                    vassert!(p.cb.all() == 0, "removing an absent key triggers no callback");
                }
                vassert!(achan::len(&cache.insert_buf_tx) == 1, "remove queues exactly one item, also for a key that is not resident (a buffered insert of it may be pending)");
                match achan::take(&p.proc_.insert_buf_rx) {
                    Some(Item::Delete { key, conflict }) => vassert!(key == k && conflict == 0, "the queued item is the Delete for that key's (index, conflict)"),
                    _ => vassert!(false, "the queued item is a Delete"),
                }
                vcover!(sr::REM_FOUND[0], "found");
                vcover!(!sr::REM_FOUND[0], "not found");
            }
            std::mem::forget(cache);
            std::mem::forget(p);
        }
    }

    async_harness! {
        [kani::unwind(6)]
        fn c19_async_client_insert() {
            // AsyncCache::try_update (what insert / insert_with_ttl / insert_if_present run before
            // the buffer send; a plain fn in both flavours) satisfies the assertions of the sync
            // client_insert harness: immediate replacement, veto, conflict, what gets queued
            let now = clock::set_nd(1000, th::SECS_MAX);
            let mut a = if nd::any_bool() { Some(any_ent(now, 2, 4)) } else { None };
            if let Some(x) = a.as_mut() {
                x.val = 0;
            }
            let store = store_from(a, None, None, NdValidator::new(None));
            let mut ents: [Option<(u64, i64)>; 3] = [None, None, None];
            if let Some(x) = a {
                ents[0] = Some((x.key, nd::any_i64_in(0, COST_MAX)));
            }
            let (cache, p) = park_async_cache(store, ents, nd::any_bool(), false, 64);
            let k = nd::any_u64();
            let before = raw(&p.store, k);
            let charge_before = p.policy.cost(&k);
            let cost = nd::any_i64_in(0, COST_MAX);
            let d = any_duration(4);
            let only_update = nd::any_bool();
            let r = cache.try_update(k, 2, cost, d, only_update);
            vassert!(r.is_ok(), "try_update does not fail");
            let r = r.unwrap();
            let after = raw(&p.store, k);
            let vetoed = crate::store::verif_harness::validator_last(&p.store) == Some(false);
            // TransparentKeyBuilder: conflict hash 0, which the store treats as matching any entry
            let conflict_ok = before.is_some();
            let ext = if cost == 0 { 1 } else { 0 };
            if conflict_ok && !vetoed {
                let e = after.unwrap();
                vassert!(e.val == 2, "an insert of a resident key that is not vetoed replaces the value immediately");
                vassert!(th::created(&e.exp) == now && th::ttl_of(&e.exp) == d, "re-inserting a resident key replaces its deadline (no TTL given: it no longer expires)");
                vassert!(p.cb.exits(before.unwrap().val) == 1 && p.cb.all() == 1, "the replaced value is handed to on_exit exactly once");
                match r {
                    Some((idx, Item::Update { key, cost: c2, external_cost })) => {
                        vassert!(idx == k && key == k && c2 == cost && external_cost == ext, "the queued Update carries the explicit cost, or the Coster's valuation when the cost is 0");
                    }
                    _ => {
                        vassert!(false, "a replaced resident key queues an Update item");
                    }
                }
                vcover!(cost == 0, "coster consulted");
                vcover!(!d.is_zero() && before.unwrap().exp.is_zero(), "entry gains a TTL");
            } else {
                vassert!(after == before, "a vetoed insert, or an insert of an absent key, leaves the store exactly as it was (value and TTL)");
                vassert!(p.cb.all() == 0, "no callback fires for a vetoed insert or an insert of an absent key");
                match r {
                    None => {
                        vassert!(only_update, "only insert_if_present gives up without queuing");
                    }
                    Some((idx, Item::New { key, conflict, cost: c2, value, expiration })) => {
                        vassert!(!only_update, "insert_if_present never queues a New item: it cannot create an entry");
                        vassert!(idx == k && key == k && conflict == 0 && value == 2 && c2 == cost + ext, "the queued New item carries the explicit cost, or the Coster's valuation when the cost is 0");
                        vassert!(th::created(&expiration) == now && th::ttl_of(&expiration) == d, "the queued New item carries the requested TTL");
                    }
                    _ => {
                        vassert!(false, "an insert that did not replace anything queues a New item or nothing");
                    }
                }
                vcover!(before.is_some() && vetoed, "vetoed");
                vcover!(before.is_none() && only_update, "insert_if_present on an absent key");
                vcover!(before.is_none() && !only_update, "plain insert of an absent key");
            }
            vassert!(p.policy.cost(&k) == charge_before, "the client call itself never changes the policy's charges");
            std::mem::forget(r);
            std::mem::forget(cache);
            std::mem::forget(p);
        }
    }

    async_harness! {
        [kani::unwind(6),
         kani::stub(async_channel::Sender::try_send, achan::try_send),
         kani::stub(futures_util::async_await::shuffle, shuffle_one)]
        fn c19_async_client_insert_send() {
            // the whole async insert path (try_insert_in: closed test, try_update, select!{send,
            // default}) while the insert buffer has room: whatever try_update decided to queue is
            // queued exactly once and insert reports true; nothing is queued and false is reported
            // when nothing is to be queued or the cache is closed
            let now = clock::set_nd(1000, th::SECS_MAX);
            let mut a = if nd::any_bool() { Some(any_ent(now, 0, 4)) } else { None };
            if let Some(x) = a.as_mut() {
                x.val = 0;
            }
            let store = store_from(a, None, None, NdValidator::new(None));
            let mut ents: [Option<(u64, i64)>; 3] = [None, None, None];
            if let Some(x) = a {
                ents[0] = Some((x.key, nd::any_i64_in(0, COST_MAX)));
            }
            let (cache, p) = park_async_cache(store, ents, nd::any_bool(), false, 64);
            let closed = nd::any_bool();
            cache.is_closed.store(closed, Ordering::SeqCst);
            let k = nd::any_u64();
            let before = raw(&p.store, k);
            let cost = nd::any_i64_in(1, COST_MAX);
            let only_update = nd::any_bool();
            let r = poll_once(cache.try_insert_in(k, 2, cost, Duration::ZERO, only_update));
            vassert!(matches!(r, Some(Ok(_))), "an insert completes without suspending and without error while the buffer has room");
            let ret = matches!(r, Some(Ok(true)));
            let vetoed = crate::store::verif_harness::validator_last(&p.store) == Some(false);
            if closed {
                vassert!(!ret && achan::len(&cache.insert_buf_tx) == 0 && raw(&p.store, k) == before && p.cb.all() == 0, "an insert on a closed cache returns false and has no effect");
            } else if before.is_some() && !vetoed {
                vassert!(ret && achan::len(&cache.insert_buf_tx) == 1, "replacing a resident value reports true and queues one item");
                vassert!(matches!(achan::take(&p.proc_.insert_buf_rx), Some(Item::Update { key, cost: c2, .. }) if key == k && c2 == cost), "the queued item is the Update for that key with the given cost");
                vassert!(raw(&p.store, k).map(|e| e.val) == Some(2), "the value is replaced at once");
            } else if only_update {
                vassert!(!ret && achan::len(&cache.insert_buf_tx) == 0 && raw(&p.store, k) == before, "insert_if_present on an absent key, or vetoed, reports false, queues nothing and leaves the store as it was");
            } else {
                vassert!(ret && achan::len(&cache.insert_buf_tx) == 1, "an insert that replaced nothing reports true while the buffer has room, and queues one item");
                vassert!(matches!(achan::take(&p.proc_.insert_buf_rx), Some(Item::New { key, conflict, cost: c2, value, .. }) if key == k && conflict == 0 && c2 == cost && value == 2), "the queued item is the New item for that key, value and cost");
                vassert!(raw(&p.store, k) == before, "the store is left as it was until the item is processed");
            }
            vcover!(closed, "closed");
            vcover!(!closed && before.is_some() && !vetoed, "update queued");
            vcover!(!closed && before.is_some() && vetoed && !only_update, "vetoed insert goes the New way");
            vcover!(!closed && before.is_none() && !only_update, "new queued");
            std::mem::forget(r);
            std::mem::forget(cache);
            std::mem::forget(p);
        }
    }

    async_harness! {
        [kani::unwind(6),
         kani::stub(async_channel::Sender::try_send, achan::try_send)]
        fn c19_async_client_lookup() {
            // AsyncCache::get / get_mut (one poll; buffer_items large enough that the access is
            // only recorded in the ring): hit iff resident and not expired, the value of that key
            let now = clock::set_nd(1000, th::SECS_MAX);
            let mut a = if nd::any_bool() { Some(any_ent(now, 2, 4)) } else { None };
            if let Some(x) = a.as_mut() {
                x.conflict = 0;
            }
            let store = store_from(a, None, None, NdValidator::new(Some(true)));
            let mut ents: [Option<(u64, i64)>; 3] = [None, None, None];
            if let Some(x) = a {
                ents[0] = Some((x.key, nd::any_i64_in(0, COST_MAX)));
            }
            let (cache, p) = park_async_cache(store, ents, nd::any_bool(), true, 64);
            let closed = nd::any_bool();
            cache.is_closed.store(closed, Ordering::SeqCst);
            let k = nd::any_u64();
            let before = raw(&p.store, k);
            let visible = !closed && match before {
                Some(e) => e.exp.is_zero() || now - th::created(&e.exp) < th::ttl_of(&e.exp),
                None => false,
            };
            let mutable = nd::any_bool();
            let (polled, hit, val) = if mutable {
                match poll_once(cache.get_mut(&k)) {
                    Some(Some(r)) => (true, true, *r.value()),
                    Some(None) => (true, false, 0),
                    None => (false, false, 0),
                }
            } else {
                match poll_once(cache.get(&k)) {
                    Some(Some(r)) => (true, true, *r.value()),
                    Some(None) => (true, false, 0),
                    None => (false, false, 0),
                }
            };
            vassert!(polled, "a lookup completes without suspending");
            vassert!(hit == visible, "an async lookup hits iff the cache is open and the key is resident with its TTL not elapsed");
            if hit {
                vassert!(val == before.unwrap().val, "an async lookup returns the value stored under that key");
            }
            vassert!(raw(&p.store, k) == before && p.cb.all() == 0 && achan::len(&cache.insert_buf_tx) == 0, "a lookup changes nothing and queues nothing");
            if !closed {
                vassert!(mrec::get(&p.metrics, MetricType::Hit) == hit as u64 && mrec::get(&p.metrics, MetricType::Miss) == (!hit) as u64, "every lookup on an open cache counts as exactly one hit or one miss");
            }
            vcover!(hit && mutable, "get_mut hit");
            vcover!(hit && !mutable, "get hit");
            vcover!(!closed && before.is_some() && !visible, "expired");
            vcover!(closed, "closed");
            std::mem::forget(cache);
            std::mem::forget(p);
        }
    }

    async_harness! {
        [kani::unwind(6),
         kani::stub(async_channel::Sender::try_send, achan::try_send),
         kani::stub(crate::metrics::Metrics::clear, mrec::clear)]
        fn c19_async_client_clear() {
            // AsyncCache::clear: one clear signal is sent to the processor, then store and policy
            // are emptied and the counters reset - as the sync clear does
            let now = clock::set_nd(1000, th::SECS_MAX);
            let a = if nd::any_bool() { Some(any_ent(now, 0, 4)) } else { None };
            let store = store_from(a, None, None, NdValidator::new(Some(true)));
            let mut ents: [Option<(u64, i64)>; 3] = [None, None, None];
            if let Some(x) = a {
                ents[0] = Some((x.key, nd::any_i64_in(0, COST_MAX)));
            }
            let (cache, p) = park_async_cache(store, ents, nd::any_bool(), true, 64);
            let closed = nd::any_bool();
            cache.is_closed.store(closed, Ordering::SeqCst);
            let r = poll_once(cache.clear());
            vassert!(matches!(r, Some(Ok(()))), "clear completes without suspending (the clear channel is unbounded)");
            if closed {
                vassert!(achan::signals(&p.proc_.clear_rx) == 0 && p.store.len() == (a.is_some() as usize), "clear on a closed cache has no effect");
            } else {
                vassert!(achan::signals(&p.proc_.clear_rx) == 1, "exactly one clear signal is sent to the processor");
                vassert!(p.store.len() == 0, "the store is empty after clear");
                if let Some(x) = a {
                    vassert!(raw(&p.store, x.key).is_none() && !p.policy.contains(&x.key), "a key resident before clear is neither stored nor charged afterwards");
                }
                vassert!(p.cb.all() == 0, "clear itself hands nothing to the callbacks");
            }
            vcover!(!closed && a.is_some(), "clear of a non-empty cache");
            vcover!(closed, "closed");
            std::mem::forget(cache);
            std::mem::forget(p);
        }
    }

    // (A full-buffer variant - the send future not ready, select! taking its `default` arm, sets_dropped
    // counted - was attempted: behind `try_send == Full` the future calls event-listener's
    // `listen()`; CBMC's symbolic execution of that did not finish in 25 min. The default arm of the
    // async insert path is therefore not decided.)

    #[cfg(kani)]
    async_harness! {
        [kani::unwind(6),
         kani::stub(async_channel::Sender::try_send, achan::try_send),
         kani::stub(futures_util::async_await::shuffle, shuffle_one)]
        fn c19_async_get_records() {
            // buffer_items = 1: every async lookup, hit or miss, hands its index hash to the policy at
            // once (AsyncRingStripe::push -> AsyncLFUPolicy::push -> select!{send, default} on the
            // policy's unbounded channel): exactly one batch [k], counted as kept, never as dropped
            vassert!(std::mem::size_of::<Item<u64>>() != achan::batch_size(), "the FIFO contract tells the two channels apart by message size");
            let now = clock::set_nd(1000, th::SECS_MAX);
            let mut a = if nd::any_bool() { Some(any_ent(now, 0, 4)) } else { None };
            if let Some(x) = a.as_mut() {
                x.conflict = 0;
            }
            let store = store_from(a, None, None, NdValidator::new(Some(true)));
            let mut ents: [Option<(u64, i64)>; 3] = [None, None, None];
            if let Some(x) = a {
                ents[0] = Some((x.key, nd::any_i64_in(0, COST_MAX)));
            }
            let (cache, p) = park_async_cache(store, ents, nd::any_bool(), true, 1);
            let closed = nd::any_bool();
            cache.is_closed.store(closed, Ordering::SeqCst);
            let k = nd::any_u64();
            let resident = raw(&p.store, k).is_some();
            let mutable = nd::any_bool();
            let (polled, hit) = if mutable {
                match poll_once(cache.get_mut(&k)) {
                    Some(r) => (true, r.is_some()),
                    None => (false, false),
                }
            } else {
                match poll_once(cache.get(&k)) {
                    Some(r) => (true, r.is_some()),
                    None => (false, false),
                }
            };
            vassert!(polled, "a lookup completes without suspending (the policy's channel is unbounded)");
            if closed {
                vassert!(!hit && achan::batches() == 0, "a lookup on a closed cache returns nothing and records nothing");
            } else {
                vassert!(hit == resident, "a lookup hits iff the key is resident (no TTL here)");
                vassert!(achan::batches() == 1, "every lookup on an open cache, hit or miss, is handed to the policy as one batch");
                match achan::take_batch::<crate::verif_env::KVec<u64>>() {
                    Some(b) => {
                        vassert!(b.len() == 1 && b[0] == k, "the batch holds exactly the looked-up key's index hash");
                        std::mem::forget(b);
                    }
                    None => vassert!(false, "a batch was queued"),
                }
                vassert!(mrec::get(&p.metrics, MetricType::KeepGets) == 1 && mrec::get(&p.metrics, MetricType::DropGets) == 0, "a handed-over lookup is counted as kept exactly once, never as dropped");
            }
            vassert!(achan::len(&cache.insert_buf_tx) == 0, "a lookup queues nothing on the insert buffer");
            vcover!(!closed && hit && mutable, "get_mut hit recorded");
            vcover!(!closed && !hit && !mutable, "get miss recorded");
            vcover!(closed, "closed");
            std::mem::forget(cache);
            std::mem::forget(p);
        }
    }
    #[cfg(kani)]
    async_harness! {
        [kani::unwind(6),
         kani::stub(async_channel::Sender::try_send, achan::try_send),
         kani::stub(futures_util::async_await::shuffle, shuffle_one)]
        fn c15_async_ring_batches() {
            // buffer_items 0..2 on the async side (AsyncRingStripe::push -> AsyncLFUPolicy::push): two
            // lookups of arbitrary keys on an open cache; a batch is handed to the policy exactly when
            // the stripe reaches buffer_items (0 behaves like 1), holds exactly the looked-up keys in
            // order, and is counted as kept once per key
            let _now = clock::set_nd(1000, th::SECS_MAX);
            let store = store_from(None, None, None, NdValidator::new(Some(true)));
            let capa = nd::any_usize_in(0, 2);
            let (cache, p) = park_async_cache(store, [None, None, None], nd::any_bool(), true, capa);
            let c = if capa == 0 { 1 } else { capa };
            let k1 = nd::any_u64();
            let k2 = nd::any_u64();
            let r1 = matches!(poll_once(cache.get(&k1)), Some(None));
            vassert!(r1, "a lookup of an absent key completes without suspending and misses");
            vassert!(achan::batches() == 1 / c, "after one lookup a batch has been handed over iff buffer_items <= 1");
            let r2 = matches!(poll_once(cache.get(&k2)), Some(None));
            vassert!(r2, "the second lookup completes without suspending and misses");
            vassert!(achan::batches() == 2 / c, "after two lookups: two batches of one (buffer_items <= 1) or one batch of two");
            match achan::take_batch::<crate::verif_env::KVec<u64>>() {
                Some(b) => {
                    vassert!(b.len() == c && b[0] == k1, "the first batch starts with the first looked-up key and holds buffer_items keys");
                    if c == 2 {
                        vassert!(b[1] == k2, "a batch of two holds both keys in lookup order");
                    }
                    std::mem::forget(b);
                }
                None => vassert!(false, "a batch was queued"),
            }
            if c == 1 {
                match achan::take_batch::<crate::verif_env::KVec<u64>>() {
                    Some(b) => {
                        vassert!(b.len() == 1 && b[0] == k2, "the second batch holds exactly the second key");
                        std::mem::forget(b);
                    }
                    None => vassert!(false, "a second batch was queued"),
                }
            }
            vassert!(achan::batches() == 0, "nothing else was handed over");
            vassert!(mrec::get(&p.metrics, MetricType::KeepGets) == 2 && mrec::get(&p.metrics, MetricType::DropGets) == 0, "every handed-over lookup is counted as kept exactly once, never as dropped");
            vassert!(achan::len(&cache.insert_buf_tx) == 0, "lookups queue nothing on the insert buffer");
            vcover!(capa == 0, "buffer_items 0");
            vcover!(capa == 2, "buffer_items 2: one batch of two");
            std::mem::forget(cache);
            std::mem::forget(p);
        }
    }
}
