//! C19: the processor / cleanup code of the ASYNC flavour (`cache/async.rs`,
//! `try_cleanup_async`), instantiated on the same kind of parked fixture as the sync flavour.
//! The async client methods and task loops (executor, wakers, futures::select!) cannot be
//! executed by Kani and are outside. Child of `crate::cache::async`; needs features sync+async.
#![allow(dead_code, unused_imports)]
use super::*;
#[cfg(feature = "sync")]
mod both {
    use super::*;
    use crate::policy::verif_harness::pasync::mk_policy_async;
    use crate::policy::verif_harness::{any_tinylfu, slfu_from, COST_MAX};
    use crate::store::verif_harness::{any_ent, raw, store_from, GEnt, NdValidator, Store};
    use crate::ttl::verif_harness::{self as th, any_duration, time_at};
    use crate::verif_env::rec::{RecCb, NT};
    use crate::verif_env::{clock, mrec, HS};
    use crate::verif_nd::{self as nd, harness, vassert, vcover};

    #[cfg(kani)]
    use crate::verif_env::stubs;

    pub(crate) type AProc = CacheProcessor<u64, NdValidator, RecCb, HS>;

    pub(crate) struct AParked {
        pub proc_: AProc,
        pub cb: Arc<RecCb>,
        pub store: Arc<Store>,
        pub policy: Arc<AsyncLFUPolicy<HS>>,
        pub metrics: Arc<Metrics>,
    }

    /// the async processor wired as `AsyncCacheBuilder::finalize` wires it, no task spawned
    pub(crate) fn park_async(store: Store, ents: [Option<(u64, i64)>; 3], ignore_internal_cost: bool, metrics_on: bool) -> AParked {
        let (_buf_tx, buf_rx) = bounded::<Item<u64>>(2);
        let (_stop_tx, stop_rx) = stop_channel();
        let (_clear_tx, clear_rx) = unbounded::<()>();
        let store = Arc::new(store);
        let metrics = Arc::new(mrec::make(metrics_on));
        let (policy, worker) = mk_policy_async(any_tinylfu(1, 6), slfu_from(ents, nd::any_i64_in(-COST_MAX, COST_MAX)), metrics.clone());
        let policy = Arc::new(policy);
        let callback = Arc::new(RecCb::new());
        let proc_ = CacheProcessor::new(
            100000,
            ignore_internal_cost,
            Duration::from_millis(500),
            store.clone(),
            policy.clone(),
            buf_rx,
            stop_rx,
            clear_rx,
            metrics.clone(),
            callback.clone(),
        );
        std::mem::forget((_buf_tx, _stop_tx, _clear_tx, worker));
        AParked { proc_, cb: callback, store, policy, metrics }
    }

    fn any_aparked(ttl: u8) -> (AParked, Option<GEnt>, [Option<(u64, i64)>; 3], bool) {
        let now = clock::set_nd(1000, th::SECS_MAX);
        let mut a = if nd::any_bool() { Some(any_ent(now, ttl, 4)) } else { None };
        if let Some(x) = a.as_mut() {
            x.val = 0;
        }
        let store = store_from(a, None, None, NdValidator::new(Some(true)));
        let mut ents: [Option<(u64, i64)>; 3] = [None, None, None];
        if let Some(x) = a {
            ents[0] = Some((x.key, nd::any_i64_in(0, COST_MAX)));
        }
        let ignore = nd::any_bool();
        (park_async(store, ents, ignore, true), a, ents, ignore)
    }

    macro_rules! async_harness {
        ([$($k:meta),* $(,)?] fn $name:ident() $body:block) => {
            harness! {
                [kani::stub(std::sync::Arc::drop_slow, stubs::arc_drop_slow),
                 kani::stub(parking_lot::RawMutex::lock_slow, stubs::mutex_lock_slow),
                 kani::stub(parking_lot::RawMutex::unlock_slow, stubs::mutex_unlock_slow),
                 kani::stub(parking_lot::RawRwLock::lock_shared_slow, stubs::rw_lock_shared_slow),
                 kani::stub(parking_lot::RawRwLock::lock_exclusive_slow, stubs::rw_lock_exclusive_slow),
                 kani::stub(parking_lot::RawRwLock::unlock_shared_slow, stubs::rw_unlock_shared_slow),
                 kani::stub(parking_lot::RawRwLock::unlock_exclusive_slow, stubs::rw_unlock_exclusive_slow),
                 kani::stub(crate::metrics::Metrics::add, mrec::add),
                 kani::stub(crate::metrics::Metrics::is_op, mrec::is_op),
                 kani::stub(crate::metrics::Metrics::track_eviction, mrec::track_eviction),
                 kani::stub(std::fmt::format, stubs::fmt_format),
                 $($k),*]
                fn $name() $body
            }
        };
    }

    async_harness! {
        [kani::unwind(6)]
        fn c19_async_proc_update_delete() {
            // the async processor's Update / Delete arms satisfy the same assertions as the sync ones
            let (mut p, a, ents, ignore) = any_aparked(0);
            let k = nd::any_u64();
            let before = raw(&p.store, k);
            let isz = if ignore { 0 } else { p.store.item_size() as i64 };
            if nd::any_bool() {
                let cost = nd::any_i64_in(0, COST_MAX);
                let ext = nd::any_i64_in(0, COST_MAX);
                let r = p.proc_.handle_insert_event(Ok(Item::Update { key: k, cost, external_cost: ext }));
                vassert!(r.is_ok(), "handling an Update item does not fail");
                if before.is_some() {
                    vassert!(p.policy.cost(&k) == cost + ext + isz, "an update re-charges the entry with the new cost plus internal overhead");
                } else {
                    vassert!(!p.policy.contains(&k), "an Update for an absent key charges nothing");
                }
                vassert!(raw(&p.store, k) == before && p.cb.all() == 0, "an Update item touches neither the store nor the callbacks");
                vcover!(before.is_some(), "update of a resident");
            } else {
                let r = p.proc_.handle_insert_event(Ok(Item::Delete { key: k, conflict: 0 }));
                vassert!(r.is_ok(), "handling a Delete item does not fail");
                vassert!(raw(&p.store, k).is_none() && !p.policy.contains(&k), "after a Delete the key is neither resident nor charged");
                match before {
                    Some(e) => vassert!(p.cb.exits(e.val) == 1 && p.cb.all() == 1, "the removed value is handed to on_exit exactly once"),
                    None => vassert!(p.cb.all() == 0, "deleting an absent key triggers no callback"),
                }
                vcover!(before.is_some(), "delete of a resident");
            }
            if let Some(e) = a {
                if e.key != k {
                    vassert!(raw(&p.store, e.key) == Some(e) && p.policy.cost(&e.key) == ents[0].unwrap().1, "other entries are untouched");
                }
            }
            let _ = &mut p;
            std::mem::forget(p);
        }
    }

    async_harness! {
        [kani::unwind(5),
         kani::stub(crate::ttl::ExpirationMap::try_cleanup, crate::ttl::verif_harness::emrec::try_cleanup)]
        fn c19_async_tick() {
            // the async cleanup (handle_cleanup_event -> try_cleanup_async) for an ARBITRARY listing
            // handed out by the expiry index: only entries whose own TTL has elapsed are reclaimed,
            // each through on_evict once with its charged cost
            let now0 = clock::set_nd(1000, th::SECS_MAX);
            let mut e = any_ent(now0, 2, 4);
            e.val = 0;
            let resident = nd::any_bool();
            let hand_out = nd::any_bool();
            let lk = nd::any_u64();
            let lc = nd::any_u64();
            #[cfg(kani)]
            let listing = None;
            #[cfg(not(kani))]
            let listing = if hand_out { Some((now0.as_secs() as i64, lk, lc)) } else { None };
            let store = crate::store::verif_harness::store_from_opt(if resident { Some(e) } else { None }, None, listing, NdValidator::new(Some(true)), false);
            let charge = nd::any_i64_in(0, COST_MAX);
            let mut p = park_async(store, [if resident { Some((e.key, charge)) } else { None }, None, None], nd::any_bool(), true);
            #[cfg(kani)]
            crate::ttl::verif_harness::emrec::set(hand_out, lk, lc);
            let now = clock::advance_nd(6);
            let r = p.proc_.handle_cleanup_event();
            vassert!(r.is_ok(), "the cleanup event does not fail");
            if resident {
                let still = raw(&p.store, e.key).is_some();
                let elapsed = !e.exp.is_zero() && now >= th::deadline(&e.exp);
                vassert!(still || elapsed, "cleanup never removes an entry whose TTL has not elapsed (or that has none), whatever the expiry index hands out");
                vassert!(still == (p.cb.total(0) == 0), "resident or handed to exactly one callback");
                vassert!(still == p.policy.contains(&e.key), "resident iff charged after the tick");
                if !still {
                    vassert!(p.cb.evicts(0) == 1 && p.cb.cost_of(0) == charge, "an expired value goes to on_evict exactly once with its charged cost");
                }
                if hand_out && lk == e.key && (lc == 0 || lc == e.conflict) && elapsed {
                    vassert!(!still, "an elapsed entry handed out by the expiry index is reclaimed");
                }
                vcover!(!still, "entry reclaimed");
                vcover!(still && hand_out && lk == e.key && e.exp.is_zero(), "a listing of an entry without TTL is handed out");
            } else {
                vassert!(p.cb.all() == 0, "nothing is reported for keys that are not resident");
                vcover!(hand_out, "stale listing of an absent key");
            }
            std::mem::forget(p);
        }
    }

    #[cfg(kani)]
    async_harness! {
        [kani::unwind(6),
         kani::stub(crate::policy::AsyncLFUPolicy::add, crate::policy::verif_harness::pasync::add_wiring_async),
         kani::stub(crate::store::ShardedMap::try_insert, crate::store::verif_harness::storerec::try_insert),
         kani::stub(crate::store::ShardedMap::try_remove, crate::store::verif_harness::storerec::try_remove)]
        fn c19_async_new_wiring() {
            // the New arm of the async processor issues the same store operations and callbacks
            use crate::policy::verif_harness::psync as ps;
            use crate::store::verif_harness::storerec as sr;
            let (mut p, _a, _ents, ignore) = any_aparked(0);
            unsafe {
                ps::ADD_CALLS = 0;
                ps::ADD_KEY_RESIDENT = false;
            }
            sr::reset();
            let k = nd::any_u64();
            let conflict = nd::any_u64();
            let cost = nd::any_i64_in(0, COST_MAX);
            let d = any_duration(4);
            let isz = if ignore { 0 } else { p.store.item_size() as i64 };
            let r = p.proc_.handle_insert_event(Ok(Item::New { key: k, conflict, cost, value: 2, expiration: time_at(clock::get(), d) }));
            vassert!(r.is_ok(), "handling a New item does not fail");
            unsafe {
                vassert!(ps::ADD_CALLS == 1 && ps::ADD_KEY == k && ps::ADD_COST == cost + isz, "the policy is asked once with cost plus internal overhead unless ignored");
                if ps::ADD_OUT_ADDED {
                    vassert!(sr::INSERTS == 1 && sr::INS_KEY == k && sr::INS_CONFLICT == conflict && sr::INS_VAL == 2, "an admitted item is stored exactly once");
                    vassert!(p.cb.total(2) == 0, "an admitted value is not handed to any callback");
                } else {
                    vassert!(sr::INSERTS == 0 && p.cb.rejects(2) == 1 && p.cb.total(2) == 1 && p.cb.cost_of(2) == cost + isz, "a refused value goes to on_reject once with the charged cost");
                }
                let n = ps::ADD_OUT_N;
                vassert!(sr::REMOVES == n, "every victim reported by the policy is removed from the store, whether or not the newcomer was admitted");
                let mut evicted = [0u8; 2];
                let mut i = 0;
                while i < n {
                    vassert!(sr::REM_KEYS[i] == ps::ADD_OUT_KEYS[i] && sr::REM_CONFLICTS[i] == 0, "victims are removed by index hash, in the reported order");
                    if sr::REM_FOUND[i] {
                        evicted[sr::REM_VALS[i] as usize] += 1;
                    }
                    i += 1;
                }
                vassert!(p.cb.evicts(0) == evicted[0] && p.cb.evicts(1) == evicted[1], "every victim found in the store is handed to on_evict exactly once");
                vcover!(!ps::ADD_OUT_ADDED && n == 2, "rejected after two evictions");
                vcover!(ps::ADD_OUT_ADDED && n == 0, "admitted without victims");
            }
            std::mem::forget(p);
        }
    }
}
