//! C20: the builder's setters. Child of `crate::cache::builder`.
//!
//! `finalize()` validates `num_counters`, `max_cost` and `insert_buffer_size` as they are stored in
//! the builder, so "what the user set is what gets validated and built" rests on every setter
//! changing exactly its own field - including the five setters that change a type parameter and
//! therefore re-build the whole struct field by field (the compiler cannot tell two `usize` fields
//! apart). One step from an ARBITRARY builder state per setter covers every order of calls.
#![allow(dead_code, unused_imports)]
use super::*;
use crate::verif_env::HS;
use crate::verif_nd::{self as nd, harness, vassert, vcover};
use crate::TransparentKeyBuilder;

#[derive(Clone, Copy, PartialEq, Eq, Debug)]
pub(crate) struct Snap {
    pub metrics: bool,
    pub ignore_internal_cost: bool,
    pub num_counters: usize,
    pub max_cost: i64,
    pub buffer_items: usize,
    pub insert_buffer_size: usize,
    pub cleanup_secs: u64,
    pub cleanup_nanos: u32,
    pub has_coster: bool,
    pub has_validator: bool,
    pub has_callback: bool,
    pub has_hasher: bool,
}

pub(crate) fn snap<K, V, KH, C, U, CB, S>(b: &CacheBuilderCore<K, V, KH, C, U, CB, S>) -> Snap {
    Snap {
        metrics: b.metrics,
        ignore_internal_cost: b.ignore_internal_cost,
        num_counters: b.num_counters,
        max_cost: b.max_cost,
        buffer_items: b.buffer_items,
        insert_buffer_size: b.insert_buffer_size,
        cleanup_secs: b.cleanup_duration.as_secs(),
        cleanup_nanos: b.cleanup_duration.subsec_nanos(),
        has_coster: b.coster.is_some(),
        has_validator: b.update_validator.is_some(),
        has_callback: b.callback.is_some(),
        has_hasher: b.hasher.is_some(),
    }
}

pub(crate) type Core0 = CacheBuilderCore<
    u64,
    u64,
    TransparentKeyBuilder<u64>,
    DefaultCoster<u64>,
    DefaultUpdateValidator<u64>,
    DefaultCacheCallback<u64>,
    HS,
>;

/// a second key builder type, so that `set_key_builder` really changes the type parameter
#[derive(Default)]
pub(crate) struct OtherKb;
impl KeyBuilder for OtherKb {
    type Key = u64;
    fn hash_index<Q>(&self, _key: &Q) -> u64
    where
        Self::Key: core::borrow::Borrow<Q>,
        Q: core::hash::Hash + Eq + ?Sized,
    {
        0
    }
}

pub(crate) struct OtherCoster;
impl Coster for OtherCoster {
    type Value = u64;
    fn cost(&self, _val: &u64) -> i64 {
        1
    }
}

/// arbitrary builder state (every scalar arbitrary; the four optional components present, as every
/// constructor and every setter leaves them)
pub(crate) fn any_core() -> Core0 {
    let nanos = nd::any_u32();
    nd::assume(nanos < 1_000_000_000);
    CacheBuilderCore {
        metrics: nd::any_bool(),
        ignore_internal_cost: nd::any_bool(),
        num_counters: nd::any_usize(),
        max_cost: nd::any_i64(),
        buffer_items: nd::any_usize(),
        insert_buffer_size: nd::any_usize(),
        cleanup_duration: Duration::new(nd::any_u64(), nanos),
        key_to_hash: TransparentKeyBuilder::<u64>::default(),
        coster: Some(DefaultCoster::default()),
        update_validator: Some(DefaultUpdateValidator::default()),
        callback: Some(DefaultCacheCallback::default()),
        hasher: Some(HS::default()),
        marker_k: Default::default(),
        marker_v: Default::default(),
    }
}

pub(crate) const N_SETTERS: u8 = 12;

/// what setter number `op` with the arguments (`u`, `i`, `f`, `d`) must do to a snapshot
pub(crate) fn expect(mut s: Snap, op: u8, u: usize, i: i64, f: bool, d: Duration) -> Snap {
    match op {
        0 => s.num_counters = u,
        1 => s.max_cost = i,
        2 => s.buffer_items = u,
        3 => s.insert_buffer_size = u,
        4 => s.metrics = f,
        5 => s.ignore_internal_cost = f,
        6 => {
            s.cleanup_secs = d.as_secs();
            s.cleanup_nanos = d.subsec_nanos();
        }
        _ => {}
    }
    s
}

harness! {
    [kani::unwind(3)]
    fn c20_builder_core_setters() {
        let b = any_core();
        let before = snap(&b);
        let op = nd::any_u8();
        nd::assume(op < N_SETTERS);
        let u = nd::any_usize();
        let i = nd::any_i64();
        let f = nd::any_bool();
        let nanos = nd::any_u32();
        nd::assume(nanos < 1_000_000_000);
        let d = Duration::new(nd::any_u64(), nanos);
        let after = match op {
            0 => snap(&b.set_num_counters(u)),
            1 => snap(&b.set_max_cost(i)),
            2 => snap(&b.set_buffer_items(u)),
            3 => snap(&b.set_buffer_size(u)),
            4 => snap(&b.set_metrics(f)),
            5 => snap(&b.set_ignore_internal_cost(f)),
            6 => snap(&b.set_cleanup_duration(d)),
            7 => snap(&b.set_key_builder(OtherKb)),
            8 => snap(&b.set_coster(OtherCoster)),
            9 => snap(&b.set_update_validator(DefaultUpdateValidator::<u64>::default())),
            10 => snap(&b.set_callback(DefaultCacheCallback::<u64>::default())),
            _ => snap(&b.set_hasher(HS::default())),
        };
        vassert!(after == expect(before, op, u, i, f, d), "every builder setter changes exactly the parameter it names and carries every other parameter over unchanged");
        vcover!(op == 3 && before.buffer_items != u, "set_buffer_size with a value different from buffer_items");
        vcover!(op == 7 && before.buffer_items != before.insert_buffer_size, "set_key_builder with buffer_items != insert buffer size");
        vcover!(op == 11, "set_hasher");
    }
}
