//! C20: builder validation. Child of `crate::cache::builder`.
#![allow(dead_code, unused_imports)]
use super::*;
use crate::verif_nd::{self as nd, harness, vassert, vcover};
