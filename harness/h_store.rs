//! Store-level step lemmas: C02 (values), C03 (visibility), C04/C05 (expiry index invariant),
//! C09 (validator veto), C18 (collision isolation). Child of `crate::store`.
#![allow(dead_code, unused_imports)]
use super::*;
use crate::ttl::verif_harness::{self as th, any_duration, created, deadline, em_count_key, em_from, em_listed, em_total, time_at, EmGhost};
use crate::verif_env::{clock, HS};
use crate::verif_nd::{self as nd, harness, vassert, vcover};
use std::sync::atomic::{AtomicU64, AtomicUsize, Ordering};
use std::time::Duration;

#[cfg(kani)]
use crate::verif_env::stubs;

/// ghost copy of a store entry
#[derive(Copy, Clone, PartialEq, Debug)]
pub(crate) struct GEnt {
    pub key: u64,
    pub conflict: u64,
    pub val: u64,
    pub exp: Time,
}

/// validator whose answer is decided by the solver; counts its calls. One call per operation, so
/// a symbolic bool stands for "every predicate over (previous, new)".
pub(crate) struct NdValidator {
    pub calls: AtomicUsize,
    pub forced: Option<bool>,
    pub last: AtomicUsize,
    /// the arguments of the last call, in the order they were passed
    pub prev: AtomicU64,
    pub curr: AtomicU64,
}
impl NdValidator {
    pub fn new(forced: Option<bool>) -> Self {
        Self { calls: AtomicUsize::new(0), forced, last: AtomicUsize::new(2), prev: AtomicU64::new(0), curr: AtomicU64::new(0) }
    }
    pub fn calls(&self) -> usize {
        self.calls.load(Ordering::SeqCst)
    }
    /// (previous, new) as passed to the last call
    pub fn args(&self) -> (u64, u64) {
        (self.prev.load(Ordering::SeqCst), self.curr.load(Ordering::SeqCst))
    }
    /// answer of the last call: Some(true/false), None if never called
    pub fn last(&self) -> Option<bool> {
        match self.last.load(Ordering::SeqCst) {
            0 => Some(false),
            1 => Some(true),
            _ => None,
        }
    }
}
impl UpdateValidator for NdValidator {
    type Value = u64;
    fn should_update(&self, prev: &u64, curr: &u64) -> bool {
        self.calls.fetch_add(1, Ordering::SeqCst);
        self.prev.store(*prev, Ordering::SeqCst);
        self.curr.store(*curr, Ordering::SeqCst);
        let a = match self.forced {
            Some(b) => b,
            None => nd::any_bool(),
        };
        self.last.store(a as usize, Ordering::SeqCst);
        a
    }
}

pub(crate) type Store = ShardedMap<u64, NdValidator, HS, HS>;

/// Build a store holding exactly the given entries, with an expiration map that satisfies I-EM:
/// every entry with a TTL is filed (with its conflict) under storage_bucket(expiration), nothing
/// else is filed except the optional `stale` listing (a key that is not in the store).
pub(crate) fn store_from(a: Option<GEnt>, b: Option<GEnt>, stale: Option<(i64, u64, u64)>, v: NdValidator) -> Store {
    store_from_opt(a, b, stale, v, true)
}

/// `file`: whether entries with a TTL are filed in the expiry index (harnesses that neither
/// touch nor assert the index leave it empty to keep the formula small)
pub(crate) fn store_from_opt(a: Option<GEnt>, b: Option<GEnt>, stale: Option<(i64, u64, u64)>, v: NdValidator, file: bool) -> Store {
    let mut g: EmGhost = [None, None, None];
    let (a0, b0) = (a, b);
    let (a, b) = if file { (a, b) } else { (None, None) };
    if let Some(e) = a {
        if !e.exp.is_zero() {
            g[0] = Some((th::bucket_of(e.exp), e.key, e.conflict));
        }
    }
    if let Some(e) = b {
        if !e.exp.is_zero() {
            g[1] = Some((th::bucket_of(e.exp), e.key, e.conflict));
        }
    }
    g[2] = stale;
    let em = em_from(&g);
    let s = ShardedMap::with_validator_and_hasher(em, v, HS::default());
    for e in [a0, b0] {
        if let Some(e) = e {
            s.shards[(e.key as usize) % NUM_OF_SHARDS].write().insert(
                e.key,
                StoreItem { key: e.key, conflict: e.conflict, value: SharedValue::new(e.val), expiration: e.exp },
            );
        }
    }
    s
}

/// the answer the validator gave in its last call (None: never consulted)
pub(crate) fn validator_last(s: &Store) -> Option<bool> {
    s.validator.last()
}

/// raw content of the store for a key (bypasses the expiry filter of get)
pub(crate) fn raw(s: &Store, k: u64) -> Option<GEnt> {
    s.shards[(k as usize) % NUM_OF_SHARDS]
        .read()
        .get(&k)
        .map(|it| GEnt { key: it.key, conflict: it.conflict, val: *it.value.get(), exp: it.expiration })
}

/// the conflict hash a key is filed with must let the sweep's `try_remove(key, conflict)` find the
/// entry: the entry's own conflict hash, or 0 (which the store treats as "matches any"; an update
/// made with conflict hash 0 re-files the key that way)
pub(crate) fn filed_conflict_ok(listed: Option<u64>, e: &GEnt) -> bool {
    match listed {
        Some(c) => c == e.conflict || c == 0,
        None => false,
    }
}

/// I-EM for one key: filed exactly under its deadline bucket iff resident with a TTL
pub(crate) fn em_ok(s: &Store, k: u64) -> bool {
    match raw(s, k) {
        Some(e) if !e.exp.is_zero() => {
            filed_conflict_ok(em_listed(&s.em, th::bucket_of(e.exp), k), &e) && em_count_key(&s.em, k) == 1
        }
        _ => em_count_key(&s.em, k) == 0,
    }
}

/// arbitrary entry created at or before `now` with TTL class `ttl`: 0 = none, 1 = arbitrary, 2 = either
pub(crate) fn any_ent(now: Duration, ttl: u8, window: u64) -> GEnt {
    let back = any_duration(window);
    nd::assume(back <= now);
    let d = if ttl == 0 {
        Duration::ZERO
    } else {
        let d = any_duration(window);
        if ttl == 1 {
            nd::assume(!d.is_zero());
        }
        d
    };
    GEnt { key: nd::any_u64(), conflict: nd::any_u64(), val: nd::any_u64(), exp: time_at(now - back, d) }
}

pub(crate) const OP_INSERT: u8 = 0;
pub(crate) const OP_UPDATE: u8 = 1;
pub(crate) const OP_REMOVE: u8 = 2;
pub(crate) const OP_GETMUT: u8 = 3;

/// is key k filed under the bucket of expiration `t` (with which conflict)?
fn filed(s: &Store, t: Time, k: u64) -> Option<u64> {
    em_listed(&s.em, th::bucket_of(t), k)
}

/// One store operation from an arbitrary I-EM state, compared against plain map semantics.
/// State: an optional subject entry under the addressed key k and an optional neighbour under
/// another key g. `ttl`: TTL class of resident and new entries (0 none, 2 with or without).
/// `em`: also assert the expiry-index invariant (I-EM) for both keys.
fn store_step(op: u8, ttl: u8, forced: Option<bool>, em: bool) {
    let now = clock::set_nd(1000, th::SECS_MAX);
    let window = 4u64;
    let subj = if nd::any_bool() { Some(any_ent(now, ttl, window)) } else { None };
    let nb = if nd::any_bool() { Some(any_ent(now, ttl, window)) } else { None };
    let k = match subj {
        Some(e) => e.key,
        None => nd::any_u64(),
    };
    if let Some(y) = nb {
        nd::assume(y.key != k);
    }
    let s = store_from_opt(subj, nb, None, NdValidator::new(forced), em);
    let c = nd::any_u64();
    let v = nd::any_u64();
    let d = if ttl == 0 { Duration::ZERO } else { any_duration(window) };
    let new = time_at(now, d);
    let conflict_ok = match subj {
        Some(e) => c == 0 || c == e.conflict,
        None => false,
    };
    let mut expect: Option<GEnt> = subj;
    if op == OP_INSERT {
        let r = s.try_insert(k, v, c, new);
        vassert!(r.is_ok(), "try_insert does not fail");
        if subj.is_none() {
            expect = Some(GEnt { key: k, conflict: c, val: v, exp: new });
            vassert!(s.validator.calls() == 0, "validator not consulted for a new key");
        } else if conflict_ok && s.validator.last() == Some(true) {
            expect = Some(GEnt { key: k, conflict: c, val: v, exp: new });
        }
        vcover!(subj.is_some() && conflict_ok && s.validator.last() == Some(true), "[insert] insert replaces a resident");
        vcover!(subj.is_none() && nb.is_some(), "[insert] insert next to a neighbour");
    } else if op == OP_UPDATE {
        let r = s.try_update(k, v, c, new).unwrap();
        match r {
            UpdateResult::NotExist(x) => {
                vassert!(subj.is_none() && x == v, "NotExist iff the key is absent; the new value is handed back");
            }
            UpdateResult::Conflict(x) => {
                vassert!(subj.is_some() && !conflict_ok && x == v, "Conflict iff resident under another conflict hash; the new value is handed back");
            }
            UpdateResult::Reject(x) => {
                vassert!(conflict_ok && s.validator.last() == Some(false) && x == v, "Reject iff the validator vetoed; the new value is handed back");
            }
            UpdateResult::Update(old) => {
                vassert!(conflict_ok && s.validator.last() == Some(true), "Update only when resident, conflict matches and validator agrees");
                vassert!(old == subj.unwrap().val, "Update hands back the previous value of that same key");
                expect = Some(GEnt { key: k, conflict: subj.unwrap().conflict, val: v, exp: new });
            }
        }
        vcover!(conflict_ok && s.validator.last() == Some(true), "[update] update applied");
        vcover!(conflict_ok && s.validator.last() == Some(false), "[update] update vetoed");
        vcover!(subj.is_some() && !conflict_ok, "[update] update hits a colliding key");
    } else if op == OP_REMOVE {
        let r = s.try_remove(&k, c).unwrap();
        if conflict_ok {
            let it = r.unwrap();
            vassert!(it.key == k && *it.value.get() == subj.unwrap().val && it.conflict == subj.unwrap().conflict, "remove hands back exactly the resident entry of that key");
            expect = None;
        } else {
            vassert!(r.is_none(), "remove of an absent or colliding key removes nothing");
        }
        vcover!(conflict_ok && nb.is_some(), "[remove] remove next to a neighbour");
        vcover!(subj.is_some() && !conflict_ok, "[remove] remove hits a colliding key");
    } else {
        let visible = conflict_ok && (subj.unwrap().exp.is_zero() || now - created(&subj.unwrap().exp) < th::ttl_of(&subj.unwrap().exp));
        {
            let r = s.get(&k, c);
            vassert!(r.is_some() == visible, "get returns a value iff the key is resident, the conflict matches and its TTL has not elapsed");
            if let Some(r) = r {
                vassert!(*r.value() == subj.unwrap().val, "get returns the value stored under that key");
                if !subj.unwrap().exp.is_zero() {
                    vassert!(r.ttl() == th::ttl_of(&subj.unwrap().exp) - (now - created(&subj.unwrap().exp)), "ValueRef::ttl reports the remaining time");
                } else {
                    vassert!(r.ttl() == Duration::MAX, "ValueRef::ttl reports no expiry for an entry without TTL");
                }
            }
        }
        {
            let r = s.get_mut(&k, c);
            vassert!(r.is_some() == visible, "get_mut returns a value iff get would");
            if let Some(mut r) = r {
                vassert!(*r.value() == subj.unwrap().val, "get_mut returns the value stored under that key");
                r.write(v);
                expect = Some(GEnt { val: v, ..subj.unwrap() });
            }
        }
        vcover!(visible, "[lookup] lookup hit");
        vcover!(conflict_ok && !visible, "[lookup] lookup of an expired entry");
        vcover!(subj.is_some() && !conflict_ok, "[lookup] lookup of a colliding key");
    }
    let after = raw(&s, k);
    vassert!(after == expect, "the entry of the addressed key is exactly what map semantics prescribe (value, conflict, deadline)");
    if !conflict_ok && subj.is_some() {
        vassert!(after == subj, "an operation whose conflict hash does not match leaves the resident entry untouched");
    }
    if s.validator.last() == Some(false) {
        vassert!(after == subj, "a vetoed write leaves the resident value and its TTL exactly as they were");
    }
    if let Some(o) = nb {
        vassert!(raw(&s, o.key) == Some(o), "the entry of every other key is untouched");
    }
    vassert!(s.validator.calls() <= 1, "validator consulted at most once");
    if s.validator.calls() == 1 {
        vassert!(subj.is_some() && s.validator.args() == (subj.unwrap().val, v), "the validator is asked about (resident value, incoming value) of the addressed key, in that order");
    }
    if em {
        // I-EM for the addressed key: filed under its current deadline bucket (with its conflict)
        // iff resident with a TTL; not filed under the previous bucket any more
        match after {
            Some(e) if !e.exp.is_zero() => {
                vassert!(filed_conflict_ok(filed(&s, e.exp, k), &e), "I-EM: the addressed key is filed for cleanup under its current deadline (with a conflict hash the sweep's removal will match)");
            }
            _ => {
                vassert!(filed(&s, new, k).is_none(), "I-EM: a key without TTL (or not resident) is not filed for cleanup");
            }
        }
        if let Some(e0) = subj {
            let moved = match after {
                Some(e) => e.exp.is_zero() || th::bucket_of(e.exp) != th::bucket_of(e0.exp),
                None => true,
            };
            if moved && !e0.exp.is_zero() {
                vassert!(filed(&s, e0.exp, k).is_none(), "I-EM: the previous filing of the addressed key is gone");
            }
        }
        if let Some(o) = nb {
            if !o.exp.is_zero() {
                vassert!(filed(&s, o.exp, o.key) == Some(o.conflict), "I-EM: a neighbour sharing an expiry bucket stays filed for cleanup");
            }
        }
    }
    std::mem::forget(s);
}

macro_rules! store_harness {
    ($name:ident, $op:expr, $ttl:expr, $forced:expr, $em:expr) => {
        harness! {
            [kani::unwind(5),
             kani::stub(parking_lot::RawRwLock::lock_shared_slow, stubs::rw_lock_shared_slow),
             kani::stub(parking_lot::RawRwLock::lock_exclusive_slow, stubs::rw_lock_exclusive_slow),
             kani::stub(parking_lot::RawRwLock::unlock_shared_slow, stubs::rw_unlock_shared_slow),
             kani::stub(parking_lot::RawRwLock::unlock_exclusive_slow, stubs::rw_unlock_exclusive_slow)]
            fn $name() {
                store_step($op, $ttl, $forced, $em);
            }
        }
    };
}

// C02: values (entries without TTL: the expiry index is not involved)
store_harness!(c02_store_insert, OP_INSERT, 0, None, false);
store_harness!(c02_store_update, OP_UPDATE, 0, None, false);
store_harness!(c02_store_remove, OP_REMOVE, 0, None, false);
store_harness!(c02_store_lookup, OP_GETMUT, 0, None, false);
// C04 / C05: expiry index invariant with TTLs switching on and off
store_harness!(c04_em_store_insert, OP_INSERT, 2, Some(true), true);
store_harness!(c04_em_store_update, OP_UPDATE, 2, Some(true), true);
store_harness!(c04_em_store_remove, OP_REMOVE, 2, Some(true), true);
// C04: updates / inserts addressed at entries WITH a TTL, expired-but-unswept ones included (the
// expiry index is left empty here; its invariant is the subject of the _em_ variants)
store_harness!(c04_store_update_ttl, OP_UPDATE, 2, Some(true), false);
store_harness!(c04_store_insert_ttl, OP_INSERT, 2, Some(true), false);
// C03: visibility by time
store_harness!(c03_store_lookup_ttl, OP_GETMUT, 2, None, false);
// C09: vetoed writes
store_harness!(c09_store_veto_update, OP_UPDATE, 2, Some(false), false);
store_harness!(c09_store_veto_update_em, OP_UPDATE, 2, Some(false), true);
store_harness!(c09_store_veto_insert, OP_INSERT, 2, Some(false), false);
store_harness!(c09_store_veto_insert_em, OP_INSERT, 2, Some(false), true);

// ------------------------------------------------------------------------------------------------
// C04 / C05 / C11: the sweep itself (`ShardedMap::try_cleanup`), for an ARBITRARY listing handed out
// by the expiry index (proper or stale - e.g. left behind by clear(), which does not empty the
// index - due or not): the sweep must only remove entries whose own TTL has elapsed.
// ------------------------------------------------------------------------------------------------
#[cfg(feature = "sync")]
fn store_sweep() {
    use crate::policy::verif_harness::psync::mk_policy;
    use crate::policy::verif_harness::{any_tinylfu, slfu_from, COST_MAX};
    use crate::verif_env::mrec;
    let now = clock::set_nd(1000, th::SECS_MAX);
    let e = any_ent(now, 2, 4);
    let k = e.key;
    let resident = nd::any_bool();
    // what the expiry index hands out: nothing, or one listing with an arbitrary key and conflict
    let hand_out = nd::any_bool();
    let lk = nd::any_u64();
    let lc = nd::any_u64();
    // under Kani the index is replaced by the stand-in; natively the listing is really filed, under
    // a bucket that is due at every later instant
    #[cfg(kani)]
    let listing = None;
    #[cfg(not(kani))]
    let listing = if hand_out { Some((now.as_secs() as i64, lk, lc)) } else { None };
    let s = store_from_opt(if resident { Some(e) } else { None }, None, listing, NdValidator::new(Some(true)), false);
    let charge = nd::any_i64_in(0, COST_MAX);
    let (p, _w) = mk_policy(any_tinylfu(1, 6), slfu_from([if resident { Some((k, charge)) } else { None }, None, None], COST_MAX), Arc::new(mrec::make(false)));
    let p = Arc::new(p);
    #[cfg(kani)]
    {
        crate::ttl::verif_harness::emrec::set(hand_out, lk, lc);
        // under Kani the policy's cost / remove are recorders (the policy's own bookkeeping is
        // decided by the SampledLFU lemmas); natively the real policy is used
        crate::policy::verif_harness::psync::polrec::reset(charge);
    }
    let t = clock::advance_nd(6);
    let out = s.try_cleanup(p.clone());
    vassert!(out.is_ok(), "cleanup does not fail");
    let out = out.unwrap();
    if resident {
        let removed = raw(&s, k).is_none();
        let elapsed = !e.exp.is_zero() && t >= deadline(&e.exp);
        vassert!(!removed || elapsed, "cleanup never removes an entry whose TTL has not elapsed, and never one without TTL, whatever the expiry index hands out");
        vassert!(removed == (out.len() == 1), "every removed entry is reported exactly once");
        if removed {
            vassert!(out[0].val == Some(e.val) && out[0].index == k && out[0].cost == charge, "a reclaimed entry is reported with its value and charged cost");
        }
        #[cfg(kani)]
        unsafe {
            use crate::policy::verif_harness::psync::polrec;
            vassert!(polrec::REMOVES == removed as usize, "the sweep un-charges exactly the entries it removes");
            vassert!(!removed || polrec::REMOVED[0] == k, "the un-charged key is the removed key");
        }
        #[cfg(not(kani))]
        {
            vassert!(removed != p.contains(&k), "the sweep un-charges exactly the entries it removes");
        }
        if hand_out && lk == k && (lc == 0 || lc == e.conflict) && elapsed {
            vassert!(removed, "an elapsed entry handed out by the expiry index is reclaimed");
        }
        vcover!(removed, "entry reclaimed");
        vcover!(!removed && hand_out && lk == k && e.exp.is_zero(), "a listing of an entry without TTL is handed out");
        vcover!(!removed && hand_out && lk == k && !e.exp.is_zero(), "a listing of an entry whose TTL has not elapsed is handed out");
    } else {
        vassert!(out.len() == 0, "nothing is reported for keys that are not resident");
        vcover!(hand_out, "stale listing of an absent key");
    }
    std::mem::forget(out);
    std::mem::forget(s);
}

#[cfg(feature = "sync")]
harness! {
    [kani::unwind(5),
     kani::stub(std::sync::Arc::drop_slow, stubs::arc_drop_slow),
     kani::stub(parking_lot::RawMutex::lock_slow, stubs::mutex_lock_slow),
     kani::stub(parking_lot::RawMutex::unlock_slow, stubs::mutex_unlock_slow),
     kani::stub(parking_lot::RawRwLock::lock_shared_slow, stubs::rw_lock_shared_slow),
     kani::stub(parking_lot::RawRwLock::lock_exclusive_slow, stubs::rw_lock_exclusive_slow),
     kani::stub(parking_lot::RawRwLock::unlock_shared_slow, stubs::rw_unlock_shared_slow),
     kani::stub(parking_lot::RawRwLock::unlock_exclusive_slow, stubs::rw_unlock_exclusive_slow),
     kani::stub(crate::metrics::Metrics::add, crate::verif_env::mrec::add),
     kani::stub(crate::metrics::Metrics::is_op, crate::verif_env::mrec::is_op),
     kani::stub(crate::ttl::ExpirationMap::try_cleanup, crate::ttl::verif_harness::emrec::try_cleanup),
     kani::stub(crate::policy::LFUPolicy::cost, crate::policy::verif_harness::psync::polrec::cost),
     kani::stub(crate::policy::LFUPolicy::remove, crate::policy::verif_harness::psync::polrec::remove)]
    fn c05_store_sweep() {
        store_sweep();
    }
}

#[cfg(all(feature = "sync", feature = "async"))]
fn store_sweep_async() {
    use crate::policy::verif_harness::pasync::mk_policy_async as mk_policy;
    use crate::policy::verif_harness::{any_tinylfu, slfu_from, COST_MAX};
    use crate::verif_env::mrec;
    let now = clock::set_nd(1000, th::SECS_MAX);
    let e = any_ent(now, 2, 4);
    let k = e.key;
    let resident = nd::any_bool();
    // what the expiry index hands out: nothing, or one listing with an arbitrary key and conflict
    let hand_out = nd::any_bool();
    let lk = nd::any_u64();
    let lc = nd::any_u64();
    // under Kani the index is replaced by the stand-in; natively the listing is really filed, under
    // a bucket that is due at every later instant
    #[cfg(kani)]
    let listing = None;
    #[cfg(not(kani))]
    let listing = if hand_out { Some((now.as_secs() as i64, lk, lc)) } else { None };
    let s = store_from_opt(if resident { Some(e) } else { None }, None, listing, NdValidator::new(Some(true)), false);
    let charge = nd::any_i64_in(0, COST_MAX);
    let (p, _w) = mk_policy(any_tinylfu(1, 6), slfu_from([if resident { Some((k, charge)) } else { None }, None, None], COST_MAX), Arc::new(mrec::make(false)));
    let p = Arc::new(p);
    #[cfg(kani)]
    {
        crate::ttl::verif_harness::emrec::set(hand_out, lk, lc);
        // under Kani the policy's cost / remove are recorders (the policy's own bookkeeping is
        // decided by the SampledLFU lemmas); natively the real policy is used
        crate::policy::verif_harness::psync::polrec::reset(charge);
    }
    let t = clock::advance_nd(6);
    let out = s.try_cleanup_async(p.clone());
    vassert!(out.is_ok(), "cleanup does not fail");
    let out = out.unwrap();
    if resident {
        let removed = raw(&s, k).is_none();
        let elapsed = !e.exp.is_zero() && t >= deadline(&e.exp);
        vassert!(!removed || elapsed, "cleanup never removes an entry whose TTL has not elapsed, and never one without TTL, whatever the expiry index hands out");
        vassert!(removed == (out.len() == 1), "every removed entry is reported exactly once");
        if removed {
            vassert!(out[0].val == Some(e.val) && out[0].index == k && out[0].cost == charge, "a reclaimed entry is reported with its value and charged cost");
        }
        #[cfg(kani)]
        unsafe {
            use crate::policy::verif_harness::psync::polrec;
            vassert!(polrec::REMOVES == removed as usize, "the sweep un-charges exactly the entries it removes");
            vassert!(!removed || polrec::REMOVED[0] == k, "the un-charged key is the removed key");
        }
        #[cfg(not(kani))]
        {
            vassert!(removed != p.contains(&k), "the sweep un-charges exactly the entries it removes");
        }
        if hand_out && lk == k && (lc == 0 || lc == e.conflict) && elapsed {
            vassert!(removed, "an elapsed entry handed out by the expiry index is reclaimed");
        }
        vcover!(removed, "entry reclaimed");
        vcover!(!removed && hand_out && lk == k && e.exp.is_zero(), "a listing of an entry without TTL is handed out");
        vcover!(!removed && hand_out && lk == k && !e.exp.is_zero(), "a listing of an entry whose TTL has not elapsed is handed out");
    } else {
        vassert!(out.len() == 0, "nothing is reported for keys that are not resident");
        vcover!(hand_out, "stale listing of an absent key");
    }
    std::mem::forget(out);
    std::mem::forget(s);
}

#[cfg(all(feature = "sync", feature = "async"))]
harness! {
    [kani::unwind(5),
     kani::stub(std::sync::Arc::drop_slow, stubs::arc_drop_slow),
     kani::stub(parking_lot::RawMutex::lock_slow, stubs::mutex_lock_slow),
     kani::stub(parking_lot::RawMutex::unlock_slow, stubs::mutex_unlock_slow),
     kani::stub(parking_lot::RawRwLock::lock_shared_slow, stubs::rw_lock_shared_slow),
     kani::stub(parking_lot::RawRwLock::lock_exclusive_slow, stubs::rw_lock_exclusive_slow),
     kani::stub(parking_lot::RawRwLock::unlock_shared_slow, stubs::rw_unlock_shared_slow),
     kani::stub(parking_lot::RawRwLock::unlock_exclusive_slow, stubs::rw_unlock_exclusive_slow),
     kani::stub(crate::metrics::Metrics::add, crate::verif_env::mrec::add),
     kani::stub(crate::metrics::Metrics::is_op, crate::verif_env::mrec::is_op),
     kani::stub(crate::ttl::ExpirationMap::try_cleanup, crate::ttl::verif_harness::emrec::try_cleanup),
     kani::stub(crate::policy::AsyncLFUPolicy::cost, crate::policy::verif_harness::pasync::rec_cost),
     kani::stub(crate::policy::AsyncLFUPolicy::remove, crate::policy::verif_harness::pasync::rec_remove)]
    fn c05_store_sweep_async() {
        store_sweep_async();
    }
}

// ------------------------------------------------------------------------------------------------
// Recorder stubs for `ShardedMap::try_insert / try_remove` (Kani only), used by the "wiring"
// harnesses of the processor's New arm: the store operations themselves are decided by the store
// step lemmas above; there the question is only WHICH store operations the processor issues for
// every outcome of the policy.
// ------------------------------------------------------------------------------------------------
#[cfg(kani)]
pub(crate) mod storerec {
    use super::*;
    pub static mut INSERTS: usize = 0;
    pub static mut INS_KEY: u64 = 0;
    pub static mut INS_CONFLICT: u64 = 0;
    pub static mut INS_VAL: u64 = 0;
    pub static mut INS_TTL_SECS: u64 = 0;
    pub static mut REMOVES: usize = 0;
    pub static mut REM_KEYS: [u64; 4] = [0; 4];
    pub static mut REM_CONFLICTS: [u64; 4] = [0; 4];
    pub static mut REM_FOUND: [bool; 4] = [false; 4];
    pub static mut REM_VALS: [u64; 4] = [0; 4];

    pub fn reset() {
        unsafe {
            INSERTS = 0;
            REMOVES = 0;
        }
    }

    pub fn try_insert<V, U, SS, ES>(_s: &ShardedMap<V, U, SS, ES>, key: u64, val: V, conflict: u64, expiration: Time) -> Result<(), CacheError>
    where
        V: Send + Sync + 'static,
        U: UpdateValidator<Value = V>,
        SS: BuildHasher + Clone + 'static,
        ES: BuildHasher + Clone + 'static,
    {
        unsafe {
            INSERTS += 1;
            INS_KEY = key;
            INS_CONFLICT = conflict;
            if std::mem::size_of::<V>() == 8 {
                INS_VAL = std::mem::transmute_copy::<V, u64>(&val);
            }
            INS_TTL_SECS = th::ttl_of(&expiration).as_secs();
        }
        std::mem::forget(val);
        Ok(())
    }

    /// answers found / not found as the solver chooses; a found entry carries value tag 0 or 1
    pub fn try_remove<V, U, SS, ES>(_s: &ShardedMap<V, U, SS, ES>, key: &u64, conflict: u64) -> Result<Option<StoreItem<V>>, CacheError>
    where
        V: Send + Sync + 'static,
        U: UpdateValidator<Value = V>,
        SS: BuildHasher + Clone + 'static,
        ES: BuildHasher + Clone + 'static,
    {
        unsafe {
            let i = if REMOVES < 4 { REMOVES } else { 3 };
            REM_KEYS[i] = *key;
            REM_CONFLICTS[i] = conflict;
            REMOVES += 1;
            let found = nd::any_bool() && std::mem::size_of::<V>() == 8;
            REM_FOUND[i] = found;
            if !found {
                return Ok(None);
            }
            let tag: u64 = if nd::any_bool() { 0 } else { 1 };
            REM_VALS[i] = tag;
            let v: V = std::mem::transmute_copy::<u64, V>(&tag);
            // the removed entry has no TTL, or a TTL of 1..4 s set up to 4 s ago: it may have elapsed
            // without having been swept yet (seed C08d: such a victim must still leave through a callback)
            let now = clock::get();
            let expiration = if nd::any_bool() {
                th::time_at(now, Duration::ZERO)
            } else {
                let back = Duration::from_secs(nd::any_u64_in(0, 4));
                let created = if back <= now { now - back } else { now };
                th::time_at(created, Duration::from_secs(nd::any_u64_in(1, 4)))
            };
            Ok(Some(StoreItem { key: *key, conflict: nd::any_u64(), value: SharedValue::new(v), expiration }))
        }
    }
}
