//! C13 (and C20 width part): Count-Min sketch step lemmas. Mounted as a child of `crate::sketch`,
//! so private fields are visible and arbitrary pre-states are built by struct literal.
#![allow(dead_code, unused_imports)]
use super::*;
use crate::verif_nd::{self as nd, harness, vassert, vcover};

/// arbitrary row of `w` bytes (every nibble arbitrary)
pub(crate) fn any_row(w: usize) -> CountMinRow {
    let mut v = Vec::with_capacity(w);
    let mut i = 0;
    while i < w {
        v.push(nd::any_u8());
        i += 1;
    }
    CountMinRow(v)
}

fn nib(bytes: &[u8], i: usize) -> u8 {
    (bytes[i / 2] >> ((i & 1) * 4)) & 0x0f
}

/// one of increment / reset / clear on an arbitrary row of W bytes
fn row_step<const W: usize>() {
    let mut row = any_row(W);
    let mut before = [0u8; W];
    let mut j = 0;
    while j < W {
        before[j] = row.0[j];
        j += 1;
    }
    let op = nd::any_u8_in(0, 2);
    if op == 0 {
        let i = nd::any_u64();
        nd::assume(i < (2 * W) as u64);
        let old = row.get(i);
        vassert!(old == nib(&before, i as usize), "row.get reads the addressed nibble");
        row.increment(i);
        let mut c = 0;
        while c < 2 * W {
            let exp = if c as u64 == i {
                if nib(&before, c) < 15 {
                    nib(&before, c) + 1
                } else {
                    15
                }
            } else {
                nib(&before, c)
            };
            vassert!(row.get(c as u64) == exp, "increment: addressed nibble min(15,v+1), every other nibble unchanged");
            c += 1;
        }
        vcover!(old == 15, "saturated counter incremented");
        vcover!(old == 14 && (i & 1) == 1, "high nibble reaches 15");
    } else if op == 1 {
        row.reset();
        let mut c = 0;
        while c < 2 * W {
            vassert!(row.get(c as u64) == nib(&before, c) >> 1, "reset halves every counter");
            c += 1;
        }
        vcover!(nib(&before, 0) == 15 && nib(&before, 1) == 1, "reset with odd neighbour");
    } else {
        row.clear();
        let mut c = 0;
        while c < 2 * W {
            vassert!(row.get(c as u64) == 0, "clear zeroes every counter");
            c += 1;
        }
        vcover!(before[0] != 0, "clear of a non-zero row");
    }
    vassert!(row.0.len() == W, "row width unchanged");
}

harness! {
    [kani::unwind(10)]
    fn c13_row_step_w4() {
        row_step::<4>();
    }
}

harness! {
    [kani::unwind(4)]
    fn c13_row_step_w1() {
        row_step::<1>();
    }
}

/// arbitrary sketch with rows of `w` bytes (2w counters per row), arbitrary seeds
pub(crate) fn any_sketch(w: usize) -> CountMinSketch {
    CountMinSketch {
        rows: [any_row(w), any_row(w), any_row(w), any_row(w)],
        seeds: [nd::any_u64(), nd::any_u64(), nd::any_u64(), nd::any_u64()],
        mask: (2 * w as u64) - 1,
    }
}

fn sketch_step<const W: usize>() {
    let mut s = any_sketch(W);
    let h = nd::any_u64();
    let g = nd::any_u64();
    let eh = s.estimate(h);
    let eg = s.estimate(g);
    vassert!(eh >= 0 && eh <= 15 && eg >= 0 && eg <= 15, "estimates are 4-bit");
    let op = nd::any_u8_in(0, 2);
    if op == 0 {
        s.increment(h);
        let eh2 = s.estimate(h);
        let eg2 = s.estimate(g);
        vassert!(eh2 == if eh < 15 { eh + 1 } else { 15 }, "increment raises the key's estimate by one, saturating at 15");
        vassert!(eg2 >= eg, "increment never lowers another key's estimate");
        vassert!(eg2 <= eg + 1, "increment raises another key's estimate by at most one");
        vcover!(eh == 15, "saturated estimate");
        vcover!(eh == 0 && g != h && eg2 == eg + 1, "collision raises the other key");
    } else if op == 1 {
        s.reset();
        vassert!(s.estimate(h) == eh >> 1, "reset halves every estimate");
        vassert!(s.estimate(g) == eg >> 1, "reset halves every estimate (second key)");
        vcover!(eh == 15, "reset of saturated estimate");
    } else {
        s.clear();
        vassert!(s.estimate(h) == 0 && s.estimate(g) == 0, "clear zeroes every estimate");
        vcover!(eh > 0, "clear of non-zero estimate");
    }
}

harness! {
    [kani::unwind(6)]
    fn c13_sketch_step_w4() {
        sketch_step::<4>();
    }
}

harness! {
    [kani::unwind(6)]
    fn c13_sketch_step_w1() {
        sketch_step::<1>();
    }
}

#[cfg(kani)]
fn rng_next_u64_stub(_r: &mut rand::rngs::StdRng) -> u64 {
    nd::any_u64()
}
#[cfg(kani)]
fn rng_from_seed_stub(_s: [u8; 32]) -> rand::rngs::StdRng {
    // the stream is never used (next_u64 is stubbed); avoids ChaCha's cpuid feature detection
    unsafe { std::mem::zeroed() }
}
#[cfg(kani)]
fn now_stub() -> std::time::SystemTime {
    std::time::UNIX_EPOCH + std::time::Duration::from_secs(nd::any_u64_in(0, 1 << 40))
}

/// `CountMinSketch::new(n)` for every n in [1, 2^16] (covers "num_counters 1..70, power of two or
/// not"): Ok, widths as documented, every row can hold a counter, and recording / estimating an
/// arbitrary hash works (no loop depends on n on this path; `reset`/`clear` are width-generic loops
/// covered by the step harnesses).
fn sketch_new_widths() {
    let n = nd::any_u64_in(1, 1 << 16);
    #[cfg(kani)]
    let s = CountMinSketch::new(n);
    #[cfg(not(kani))]
    let s = {
        // natively the seeds come from the tape (same order as the stubbed clock + RNG under Kani)
        let r = CountMinSketch::new(n);
        r.map(|mut s| {
            let _ = nd::any_u64(); // now_stub
            s.seeds = [nd::any_u64(), nd::any_u64(), nd::any_u64(), nd::any_u64()];
            s
        })
    };
    vassert!(s.is_ok(), "new(n>=1) is Ok");
    let mut s = s.unwrap();
    let p2 = n.next_power_of_two();
    vassert!(s.mask + 1 == p2 || (n == 1 && s.mask + 1 == 2), "mask+1 is the next power of two >= n (at least one byte per row)");
    vcover!(n == 1, "num_counters == 1");
    vcover!(n == 70, "num_counters == 70");
    vcover!(n == 3, "num_counters == 3");
    vcover!(n == 65536, "num_counters == 65536");
    let mut r = 0;
    while r < DEPTH {
        vassert!(s.rows[r].0.len() as u64 * 2 >= s.mask + 1, "every row holds mask+1 four-bit counters");
        r += 1;
    }
    let h = nd::any_u64();
    let e0 = s.estimate(h);
    vassert!(e0 == 0, "fresh sketch estimates zero");
    s.increment(h);
    vassert!(s.estimate(h) == 1, "one increment on a fresh sketch estimates one");
}

harness! {
    [kani::unwind(10),
     kani::stub(<rand::rngs::StdRng as rand::RngCore>::next_u64, rng_next_u64_stub),
     kani::stub(<rand::rngs::StdRng as rand::SeedableRng>::from_seed, rng_from_seed_stub),
     kani::stub(std::time::SystemTime::now, now_stub)]
    fn c13_sketch_new_widths() {
        sketch_new_widths();
    }
}
