//! Async policy fixture (C19). Child of `crate::policy::async`.
#![allow(dead_code, unused_imports)]
use super::*;
use crate::policy::{PolicyPair, SampledLFU, TinyLFU};
use crate::verif_env::{mrec, KVec, HS};
use crate::verif_nd::{self as nd, harness, vassert, vcover};

/// `AsyncLFUPolicy` wired as `with_hasher` wires it, without spawning the policy task
pub(crate) fn mk_policy_async(admit: TinyLFU, costs: SampledLFU<HS>, metrics: Arc<Metrics>) -> (AsyncLFUPolicy<HS>, PolicyProcessor<HS>) {
    let inner = crate::policy::verif_harness::inner_from(admit, costs, metrics.clone());
    let (items_tx, items_rx) = unbounded();
    let (stop_tx, stop_rx) = stop_channel();
    let proc_ = PolicyProcessor::new(inner.clone(), items_rx, stop_rx);
    (
        AsyncLFUPolicy { inner, items_tx, stop_tx, is_closed: AtomicBool::new(false), metrics },
        proc_,
    )
}

/// wiring-mode stand-in for `AsyncLFUPolicy::add` (same recorder as the sync flavour)
#[cfg(all(kani, feature = "sync"))]
pub(crate) fn add_wiring_async<S: BuildHasher + Clone + 'static>(_p: &AsyncLFUPolicy<S>, key: u64, cost: i64) -> (Option<KVec<PolicyPair>>, bool) {
    crate::policy::verif_harness::psync::add_wiring(key, cost)
}

/// recorder stand-ins for `AsyncLFUPolicy::cost` / `remove` (same recorder as the sync flavour)
#[cfg(all(kani, feature = "sync"))]
pub(crate) fn rec_cost<S: BuildHasher + Clone + 'static>(_p: &AsyncLFUPolicy<S>, _k: &u64) -> i64 {
    use crate::policy::verif_harness::psync::polrec;
    unsafe {
        polrec::COST_CALLS += 1;
        polrec::COST_ANSWER
    }
}
#[cfg(all(kani, feature = "sync"))]
pub(crate) fn rec_remove<S: BuildHasher + Clone + 'static>(_p: &AsyncLFUPolicy<S>, k: &u64) {
    use crate::policy::verif_harness::psync::polrec;
    unsafe {
        if polrec::REMOVES < 2 {
            polrec::REMOVED[polrec::REMOVES] = *k;
        }
        polrec::REMOVES += 1;
    }
}
