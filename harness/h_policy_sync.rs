//! LFUPolicy-level harnesses (C01 add step, C07 rule, C15 worker, C17 policy metrics) and the
//! policy fixture used by the cache-level harnesses. Child of `crate::policy::sync`.
#![allow(dead_code, unused_imports)]
use super::*;
use crate::policy::verif_harness::{any_slfu, any_tinylfu, ghost_get, ghost_sum, slfu_sum, COST_MAX};
use crate::policy::{PolicyPair, SampledLFU, TinyLFU};
use crate::verif_env::{chan, kv, mrec, KVec, HS};
use crate::verif_nd::{self as nd, harness, vassert, vcover};

#[cfg(kani)]
use crate::verif_env::stubs;

/// An `LFUPolicy` wired as `with_hasher` wires it, but WITHOUT spawning the worker thread
/// (Kani cannot execute threads): the harness plays the worker with the real
/// `PolicyProcessor::handle_items`.
pub(crate) fn mk_policy(admit: TinyLFU, costs: SampledLFU<HS>, metrics: Arc<Metrics>) -> (LFUPolicy<HS>, PolicyProcessor<HS>) {
    let mut costs = costs;
    costs.metrics = metrics.clone();
    let inner = Arc::new(Mutex::new(PolicyInner { admit, costs }));
    let (items_tx, items_rx) = bounded(3);
    let (stop_tx, stop_rx) = stop_channel();
    let proc_ = PolicyProcessor::new(inner.clone(), items_rx, stop_rx);
    (
        LFUPolicy { inner, items_tx, stop_tx, is_closed: AtomicBool::new(false), metrics },
        proc_,
    )
}

/// native replay only: what the real `push` put on the policy's queue
pub(crate) fn worker_try_recv(w: &PolicyProcessor<HS>) -> Option<KVec<u64>> {
    w.items_rx.try_recv().ok()
}

pub(crate) fn policy_used(p: &LFUPolicy<HS>) -> i64 {
    p.inner.lock().costs.used
}
pub(crate) fn policy_len(p: &LFUPolicy<HS>) -> usize {
    p.inner.lock().costs.key_costs.len()
}
/// (sum of per-entry charges, number of entries, all non-negative)
pub(crate) fn policy_sum(p: &LFUPolicy<HS>) -> (i64, usize, bool) {
    slfu_sum(&p.inner.lock().costs)
}
pub(crate) fn policy_estimate(p: &LFUPolicy<HS>, k: u64) -> i64 {
    p.inner.lock().admit.estimate(k)
}
pub(crate) fn policy_w(p: &LFUPolicy<HS>) -> usize {
    p.inner.lock().admit.w
}

/// Recorder stand-ins for `LFUPolicy::cost` / `LFUPolicy::remove` (Kani only), used by the sweep
/// harness: which keys does the sweep un-charge, and which cost does it report?
#[cfg(kani)]
pub(crate) mod polrec {
    use super::*;
    pub static mut COST_ANSWER: i64 = 0;
    pub static mut COST_CALLS: usize = 0;
    pub static mut REMOVED: [u64; 2] = [0; 2];
    pub static mut REMOVES: usize = 0;
    pub fn reset(cost_answer: i64) {
        unsafe {
            COST_ANSWER = cost_answer;
            COST_CALLS = 0;
            REMOVES = 0;
        }
    }
    pub fn cost<S: BuildHasher + Clone + 'static>(_p: &LFUPolicy<S>, _k: &u64) -> i64 {
        unsafe {
            COST_CALLS += 1;
            COST_ANSWER
        }
    }
    pub fn remove<S: BuildHasher + Clone + 'static>(_p: &LFUPolicy<S>, k: &u64) {
        unsafe {
            if REMOVES < 2 {
                REMOVED[REMOVES] = *k;
            }
            REMOVES += 1;
        }
    }
}

/// number of eviction rounds of the contract stub: 1 by default, 2 with `--cfg verif_victims2`
#[cfg(kani)]
pub(crate) fn contract_max_victims() -> usize {
    if cfg!(verif_victims2) {
        2
    } else {
        1
    }
}

/// Contract stub for `LFUPolicy::add` (DESIGN 3.7), written over the same real `PolicyInner`:
/// an over-approximation of every admission/eviction decision the real `add` can take.
#[cfg(kani)]
pub(crate) fn add_contract_trivial<S: BuildHasher + Clone + 'static>(p: &LFUPolicy<S>, key: u64, cost: i64) -> (Option<KVec<PolicyPair>>, bool) {
    let mut inner = p.inner.lock();
    if inner.costs.update(&key, cost) {
        return (None, false);
    }
    if unsafe { CONTRACT_ADMIT } || nd::any_bool() {
        inner.costs.increment(key, cost);
        p.metrics.add(MetricType::CostAdd, key, cost as u64);
        (None, true)
    } else {
        (None, false)
    }
}

/// with CONTRACT_TRIVIAL: the harness established that there is room, so a new key is admitted
/// without victims (what the real add does with room: c07_add_rule_*)
#[cfg(kani)]
pub(crate) static mut CONTRACT_ADMIT: bool = false;

#[cfg(kani)]
pub(crate) static mut CONTRACT_TRIVIAL: bool = false;
/// "wiring" mode: add does not touch the policy at all and returns arbitrary outputs (an
/// arbitrary verdict and an arbitrary list of <= 2 victim pairs, or no list); records its inputs
#[cfg(kani)]
pub(crate) static mut CONTRACT_WIRING: bool = false;
#[cfg(kani)]
pub(crate) static mut ADD_CALLS: usize = 0;
#[cfg(kani)]
pub(crate) static mut ADD_KEY: u64 = 0;
#[cfg(kani)]
pub(crate) static mut ADD_COST: i64 = 0;
#[cfg(kani)]
pub(crate) static mut ADD_OUT_ADDED: bool = false;
#[cfg(kani)]
pub(crate) static mut ADD_OUT_N: usize = 0;
#[cfg(kani)]
pub(crate) static mut ADD_OUT_KEYS: [u64; 2] = [0; 2];
#[cfg(kani)]
pub(crate) static mut ADD_OUT_COSTS: [i64; 2] = [0; 2];

/// set by the harness: is the item's key already charged? (the real add then takes its update path
/// and returns (None, false); every output explored here must be one the real add can produce)
#[cfg(kani)]
pub(crate) static mut ADD_KEY_RESIDENT: bool = false;

#[cfg(kani)]
pub(crate) fn add_wiring(key: u64, cost: i64) -> (Option<KVec<PolicyPair>>, bool) {
    unsafe {
        ADD_CALLS += 1;
        ADD_KEY = key;
        ADD_COST = cost;
        ADD_OUT_N = 0;
        if ADD_KEY_RESIDENT {
            ADD_OUT_ADDED = false;
            return (None, false);
        }
        let added = nd::any_bool();
        ADD_OUT_ADDED = added;
        ADD_OUT_N = 0;
        if nd::any_bool() {
            return (None, added);
        }
        let n = nd::any_usize_in(0, 2);
        let mut v: KVec<PolicyPair> = KVec::with_capacity(2);
        let mut i = 0;
        while i < n {
            let k = nd::any_u64();
            nd::assume(k != key);
            let c = nd::any_i64_in(0, COST_MAX);
            ADD_OUT_KEYS[i] = k;
            ADD_OUT_COSTS[i] = c;
            v.push(PolicyPair { key: k, cost: c });
            i += 1;
        }
        ADD_OUT_N = n;
        (Some(v), added)
    }
}

#[cfg(kani)]
pub(crate) fn add_contract<S: BuildHasher + Clone + 'static>(p: &LFUPolicy<S>, key: u64, cost: i64) -> (Option<KVec<PolicyPair>>, bool) {
    if unsafe { CONTRACT_WIRING } {
        return add_wiring(key, cost);
    }
    if unsafe { CONTRACT_TRIVIAL } {
        return add_contract_trivial(p, key, cost);
    }
    let mut inner = p.inner.lock();
    let max_cost = inner.costs.get_max_cost();
    if cost > max_cost {
        return (None, false);
    }
    if inner.costs.update(&key, cost) {
        return (None, false);
    }
    if inner.costs.room_left(cost) >= 0 {
        inner.costs.increment(key, cost);
        p.metrics.add(MetricType::CostAdd, key, cost as u64);
        return (None, true);
    }
    // up to MAX_VICTIMS arbitrary residents are evicted (the solver picks the keys)
    let mut victims: KVec<PolicyPair> = KVec::with_capacity(2);
    let mut round = 0;
    while round < contract_max_victims() {
        let vk = nd::any_u64();
        let vc = inner.costs.key_costs.get(&vk).copied();
        if let Some(vc) = vc {
            if let Some(c) = inner.costs.remove(&vk) {
                p.metrics.add(MetricType::CostEvict, vk, c as u64);
                p.metrics.add(MetricType::KeyEvict, vk, 1);
            }
            victims.push(PolicyPair { key: vk, cost: vc });
        }
        round += 1;
    }
    if nd::any_bool() {
        nd::assume(inner.costs.room_left(cost) >= 0);
        inner.costs.increment(key, cost);
        p.metrics.add(MetricType::CostAdd, key, cost as u64);
        (Some(victims), true)
    } else {
        p.metrics.add(MetricType::RejectSets, key, 1);
        (Some(victims), false)
    }
}

/// standard stub set for harnesses that touch locks and (noop) metrics
macro_rules! policy_harness {
    ([$($k:meta),* $(,)?] fn $name:ident() $body:block) => {
        harness! {
            [kani::stub(parking_lot::RawMutex::lock_slow, stubs::mutex_lock_slow),
             kani::stub(parking_lot::RawMutex::unlock_slow, stubs::mutex_unlock_slow),
             kani::stub(parking_lot::RawRwLock::lock_shared_slow, stubs::rw_lock_shared_slow),
             kani::stub(parking_lot::RawRwLock::lock_exclusive_slow, stubs::rw_lock_exclusive_slow),
             kani::stub(parking_lot::RawRwLock::unlock_shared_slow, stubs::rw_unlock_shared_slow),
             kani::stub(parking_lot::RawRwLock::unlock_exclusive_slow, stubs::rw_unlock_exclusive_slow),
             kani::stub(crate::metrics::Metrics::add, mrec::add),
             kani::stub(crate::metrics::Metrics::is_op, mrec::is_op),
             kani::stub(std::sync::Arc::drop_slow, stubs::arc_drop_slow),
             $($k),*]
            fn $name() $body
        }
    };
}
pub(crate) use policy_harness;

policy_harness! {
    [kani::unwind(10)]
    fn c15_worker_applies() {
        // the policy worker applies a flushed batch: every key of the batch is recorded
        let m = Arc::new(mrec::make(false));
        let mut admit = any_tinylfu(4, 9);
        admit.clear();
        nd::assume(admit.samples > 4);
        let (s, _e) = any_slfu(0);
        let (p, w) = mk_policy(admit, s, m);
        let k = nd::any_u64();
        let n = nd::any_usize_in(1, 3);
        let b = [nd::any_u64(), nd::any_u64(), nd::any_u64()];
        let mut batch: KVec<u64> = KVec::with_capacity(3);
        let mut cnt = 0i64;
        let mut i = 0;
        while i < n {
            batch.push(b[i]);
            if b[i] == k {
                cnt += 1;
            }
            i += 1;
        }
        if nd::any_bool() {
            w.handle_items(Ok(batch));
            vassert!(policy_estimate(&p, k) >= cnt, "once a flushed batch is processed the key's estimate reflects those lookups");
            vassert!(policy_w(&p) == n, "every lookup of the batch counts toward the aging period");
            vcover!(cnt == 3, "same key three times");
            vcover!(cnt == 0, "key not in batch");
        } else {
            w.handle_items(Err(crossbeam_channel::RecvError));
            vassert!(policy_estimate(&p, k) == 0 && policy_w(&p) == 0, "a receive error changes nothing and does not panic");
            vcover!(true, "error path");
        }
    }
}

policy_harness! {
    [kani::unwind(6)]
    fn c01_policy_ops() {
        // the policy's locked wrappers around SampledLFU: remove / update / clear / cost /
        // contains / cap / max_cost / update_max_cost from an arbitrary I-P state
        let m = Arc::new(mrec::make(false));
        let (s, ents) = any_slfu(3);
        let mc0 = s.get_max_cost();
        let (p, _w) = mk_policy(any_tinylfu(1, 6), s, m);
        let k = nd::any_u64();
        let c = nd::any_i64_in(0, COST_MAX);
        let before = ghost_get(&ents, k);
        let used0 = ghost_sum(&ents);
        vassert!(p.contains(&k) == before.is_some(), "contains reports residency");
        vassert!(p.cost(&k) == before.unwrap_or(-1), "cost reports the per-entry charge, -1 when absent");
        vassert!(p.cap() == mc0 - used0, "cap is max_cost minus the charged total");
        vassert!(p.max_cost() == mc0, "max_cost() reports the configured value");
        let op = nd::any_u8_in(0, 3);
        if op == 0 {
            p.remove(&k);
            vassert!(!p.contains(&k) && policy_used(&p) == used0 - before.unwrap_or(0), "remove releases exactly the entry's charge");
            vcover!(before.is_some(), "removed a resident");
        } else if op == 1 {
            p.update(&k, c);
            if before.is_some() {
                vassert!(p.cost(&k) == c && policy_used(&p) == used0 - before.unwrap() + c, "update re-charges the entry");
            } else {
                vassert!(!p.contains(&k) && policy_used(&p) == used0, "update of an absent key changes nothing");
            }
            vcover!(before.is_some(), "updated a resident");
        } else if op == 2 {
            p.clear();
            vassert!(policy_used(&p) == 0 && policy_len(&p) == 0, "clear releases every charge");
            vassert!(policy_estimate(&p, k) == 0, "clear zeroes the popularity estimator");
            vcover!(used0 > 0, "clear of a charged policy");
        } else {
            let m2 = nd::any_i64_in(-COST_MAX, COST_MAX);
            p.update_max_cost(m2);
            vassert!(p.max_cost() == m2 && p.cap() == m2 - used0, "update_max_cost takes effect for the next computation");
            vcover!(m2 < used0, "lowered below the charged total");
        }
        let (sum, _n, nonneg) = policy_sum(&p);
        vassert!(policy_used(&p) == sum && nonneg, "I-P: charged total equals the sum of per-entry charges");
    }
}

// ------------------------------------------------------------------------------------------------
// The REAL `LFUPolicy::add` from an arbitrary state (C01 admission clauses, C04 "room admits",
// C07 rule). Residents < 5, so every resident is a sampled candidate and the rule can be asserted
// on add's outputs and the real estimator without any observer hook.
// ------------------------------------------------------------------------------------------------

fn add_real(n_max: usize, uf: bool) {
    add_real_m(n_max, uf, false)
}

fn add_real_m(n_max: usize, uf: bool, metrics_on: bool) {
    let m = Arc::new(mrec::make(metrics_on));
    let (s, ents) = any_slfu(n_max);
    let used0 = ghost_sum(&ents);
    let mc = s.get_max_cost();
    let (p, _w) = mk_policy(any_tinylfu(1, 6), s, m);
    let key = nd::any_u64();
    let cost = nd::any_i64_in(0, COST_MAX);
    #[cfg(kani)]
    if uf {
        use crate::policy::verif_harness::estuf;
        estuf::reset();
        let mut i = 0;
        while i < 3 {
            if let Some((k, _)) = ents[i] {
                estuf::set(i, k, nd::any_i64_in(0, 16));
            }
            i += 1;
        }
        if ghost_get(&ents, key).is_none() {
            estuf::set(3, key, nd::any_i64_in(0, 16));
        }
    }
    let _ = uf;
    let est_key = policy_estimate(&p, key);
    let est = [
        ents[0].map_or(0, |e| policy_estimate(&p, e.0)),
        ents[1].map_or(0, |e| policy_estimate(&p, e.0)),
        ents[2].map_or(0, |e| policy_estimate(&p, e.0)),
    ];
    let was_resident = ghost_get(&ents, key).is_some();
    let (victims, added) = p.add(key, cost);
    let used1 = policy_used(&p);
    if metrics_on {
        // I-M from a zeroed recorder: the deltas of this one call
        let gone_n = {
            let mut n = 0u64;
            let mut rel = 0i64;
            let mut i = 0;
            while i < 3 {
                if let Some((k, c)) = ents[i] {
                    if k != key && !p.contains(&k) {
                        n += 1;
                        rel += c;
                    }
                }
                i += 1;
            }
            (n, rel)
        };
        vassert!(mrec::get(&p.metrics, MetricType::KeyEvict) == gone_n.0, "keys_evicted counts exactly the residents that lost their charge (a stale duplicate is not counted twice)");
        vassert!(mrec::get(&p.metrics, MetricType::CostEvict) == gone_n.1 as u64, "cost_evicted counts exactly the released charges");
        if added {
            vassert!(mrec::get(&p.metrics, MetricType::CostAdd) == cost as u64, "cost_added counts the admitted cost");
        }
        let rejected_by_policy = !added && !was_resident && cost <= mc;
        vassert!(mrec::get(&p.metrics, MetricType::RejectSets) == rejected_by_policy as u64, "sets_rejected counts exactly the policy's popularity rejections");
    }
    let (sum, _n, nonneg) = policy_sum(&p);
    vassert!(used1 == sum && nonneg, "I-P: the charged total equals the sum of the per-entry charges after add");
    if cost > mc {
        vassert!(!added && victims.is_none() && used1 == used0, "an entry whose own cost exceeds max_cost is never admitted and nothing changes");
        vcover!(mc < 0, "negative max_cost");
    } else if was_resident {
        vassert!(!added && victims.is_none(), "add of a resident key is an update, not an admission");
        vassert!(p.cost(&key) == cost && used1 == used0 - ghost_get(&ents, key).unwrap() + cost, "the resident's charge is replaced");
        vcover!(used1 > mc, "over budget after an in-place update");
    } else if used0 + cost <= mc {
        vassert!(added && victims.is_none(), "when there is room a new key is always admitted and nothing is evicted");
        vassert!(used1 == used0 + cost && p.cost(&key) == cost, "the admitted key is charged its cost");
        vcover!(used0 + cost == mc, "exact fit");
    } else {
        // no room: evictions and/or rejection
        let v = victims.as_ref();
        vassert!(v.is_some(), "without room the outcome reports the (possibly empty) victim list");
        if added {
            vassert!(used1 <= mc, "every admission of a new key re-establishes total <= max_cost");
            vassert!(p.cost(&key) == cost, "the admitted key is charged its cost");
        } else {
            vassert!(!p.contains(&key), "a rejected key is not charged");
        }
        // which residents are gone, and the rule on each of them
        let mut released = 0i64;
        let mut min_surv = i64::MAX;
        let mut gone = 0;
        let mut i = 0;
        while i < 3 {
            if let Some((k, c)) = ents[i] {
                if p.contains(&k) {
                    vassert!(p.cost(&k) == c, "survivors keep their charge");
                    if est[i] < min_surv {
                        min_surv = est[i];
                    }
                } else {
                    released += c;
                    gone += 1;
                    vassert!(est[i] <= est_key, "a victim is no more popular than the newcomer");
                    // reported as a victim with its charge
                    let mut listed = false;
                    for pair in v.unwrap().iter() {
                        if pair.key == k && pair.cost == c {
                            listed = true;
                        }
                    }
                    vassert!(listed, "every resident that lost its charge is reported as a victim with its cost");
                }
            }
            i += 1;
        }
        // every victim is less popular (or equal) than every survivor: "least popular of the candidates"
        let mut j = 0;
        while j < 3 {
            if let Some((k, _)) = ents[j] {
                if !p.contains(&k) {
                    vassert!(est[j] <= min_surv, "each victim is the least popular of the sampled candidates (no survivor is less popular)");
                }
            }
            j += 1;
        }
        for pair in v.unwrap().iter() {
            vassert!(ghost_get(&ents, pair.key).is_some(), "only residents are reported as victims");
        }
        vassert!(used1 == used0 - released + if added { cost } else { 0 }, "the charged total is released by exactly the victims' charges");
        if !added {
            vassert!(est_key < min_surv, "the newcomer is rejected exactly when it is strictly less popular than the least popular candidate");
        }
        if gone > 0 && added {
            vassert!(used0 - released + cost <= mc, "evictions free enough room");
        }
        vcover!(added && gone == 2, "admitted after two evictions");
        vcover!(!added && gone == 1, "rejected after an eviction");
        vcover!(!added && gone == 0, "rejected at once");
        vcover!(used0 > mc, "over-budget pre-state");
    }
    std::mem::forget(victims);
    std::mem::forget(p);
}

policy_harness! {
    [kani::unwind(8)]
    fn c01_add_real_n2() {
        add_real(2, false);
    }
}

policy_harness! {
    [kani::unwind(9)]
    fn c01_add_real_n3() {
        add_real(3, false);
    }
}

policy_harness! {
    [kani::unwind(8),
     kani::stub(crate::policy::TinyLFU::estimate, crate::policy::verif_harness::estuf::estimate)]
    fn c07_add_rule_n2() {
        add_real(2, true);
    }
}

policy_harness! {
    [kani::unwind(9),
     kani::stub(crate::policy::TinyLFU::estimate, crate::policy::verif_harness::estuf::estimate)]
    fn c07_add_rule_n3() {
        add_real(3, true);
    }
}

policy_harness! {
    [kani::unwind(8),
     kani::stub(crate::policy::TinyLFU::estimate, crate::policy::verif_harness::estuf::estimate)]
    fn c17_add_metrics_n2() {
        add_real_m(2, true, true);
    }
}

policy_harness! {
    [kani::unwind(9),
     kani::stub(crate::policy::TinyLFU::estimate, crate::policy::verif_harness::estuf::estimate)]
    fn c17_add_metrics_n3() {
        add_real_m(3, true, true);
    }
}
