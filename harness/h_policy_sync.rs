//! LFUPolicy-level harnesses (C01 add step, C07 rule, C15 worker, C17 policy metrics) and the
//! policy fixture used by the cache-level harnesses. Child of `crate::policy::sync`.
#![allow(dead_code, unused_imports)]
use super::*;
use crate::policy::verif_harness::{any_slfu, any_tinylfu, ghost_get, ghost_sum, slfu_sum, COST_MAX};
use crate::policy::{PolicyPair, SampledLFU, TinyLFU};
use crate::verif_env::{chan, mrec, HS};
use crate::verif_nd::{self as nd, harness, vassert, vcover};

#[cfg(kani)]
use crate::verif_env::stubs;

/// An `LFUPolicy` wired as `with_hasher` wires it, but WITHOUT spawning the worker thread
/// (Kani cannot execute threads): the harness plays the worker with the real
/// `PolicyProcessor::handle_items`.
pub(crate) fn mk_policy(admit: TinyLFU, costs: SampledLFU<HS>, metrics: Arc<Metrics>) -> (LFUPolicy<HS>, PolicyProcessor<HS>) {
    let mut costs = costs;
    costs.metrics = metrics.clone();
    let inner = Arc::new(Mutex::new(PolicyInner { admit, costs }));
    let (items_tx, items_rx) = bounded(3);
    let (stop_tx, stop_rx) = stop_channel();
    let proc_ = PolicyProcessor::new(inner.clone(), items_rx, stop_rx);
    (
        LFUPolicy { inner, items_tx, stop_tx, is_closed: AtomicBool::new(false), metrics },
        proc_,
    )
}

/// native replay only: what the real `push` put on the policy's queue
pub(crate) fn worker_try_recv(w: &PolicyProcessor<HS>) -> Option<Vec<u64>> {
    w.items_rx.try_recv().ok()
}

pub(crate) fn policy_used(p: &LFUPolicy<HS>) -> i64 {
    p.inner.lock().costs.used
}
pub(crate) fn policy_len(p: &LFUPolicy<HS>) -> usize {
    p.inner.lock().costs.key_costs.len()
}
/// (sum of per-entry charges, number of entries, all non-negative)
pub(crate) fn policy_sum(p: &LFUPolicy<HS>) -> (i64, usize, bool) {
    slfu_sum(&p.inner.lock().costs)
}
pub(crate) fn policy_estimate(p: &LFUPolicy<HS>, k: u64) -> i64 {
    p.inner.lock().admit.estimate(k)
}
pub(crate) fn policy_w(p: &LFUPolicy<HS>) -> usize {
    p.inner.lock().admit.w
}

/// number of eviction rounds of the contract stub: 1 by default, 2 with `--cfg verif_victims2`
#[cfg(kani)]
pub(crate) fn contract_max_victims() -> usize {
    if cfg!(verif_victims2) {
        2
    } else {
        1
    }
}

/// Contract stub for `LFUPolicy::add` (DESIGN 3.7), written over the same real `PolicyInner`:
/// an over-approximation of every admission/eviction decision the real `add` can take.
#[cfg(kani)]
pub(crate) fn add_contract<S: BuildHasher + Clone + 'static>(p: &LFUPolicy<S>, key: u64, cost: i64) -> (Option<Vec<PolicyPair>>, bool) {
    let mut inner = p.inner.lock();
    let max_cost = inner.costs.get_max_cost();
    if cost > max_cost {
        return (None, false);
    }
    if inner.costs.update(&key, cost) {
        return (None, false);
    }
    if inner.costs.room_left(cost) >= 0 {
        inner.costs.increment(key, cost);
        p.metrics.add(MetricType::CostAdd, key, cost as u64);
        return (None, true);
    }
    // up to MAX_VICTIMS arbitrary residents are evicted (the solver picks the keys)
    let mut victims = Vec::with_capacity(2);
    let mut round = 0;
    while round < contract_max_victims() {
        let vk = nd::any_u64();
        let vc = inner.costs.key_costs.get(&vk).copied();
        if let Some(vc) = vc {
            if let Some(c) = inner.costs.remove(&vk) {
                p.metrics.add(MetricType::CostEvict, vk, c as u64);
                p.metrics.add(MetricType::KeyEvict, vk, 1);
            }
            victims.push(PolicyPair { key: vk, cost: vc });
        }
        round += 1;
    }
    if nd::any_bool() {
        nd::assume(inner.costs.room_left(cost) >= 0);
        inner.costs.increment(key, cost);
        p.metrics.add(MetricType::CostAdd, key, cost as u64);
        (Some(victims), true)
    } else {
        p.metrics.add(MetricType::RejectSets, key, 1);
        (Some(victims), false)
    }
}

/// standard stub set for harnesses that touch locks and (noop) metrics
macro_rules! policy_harness {
    ([$($k:meta),* $(,)?] fn $name:ident() $body:block) => {
        harness! {
            [kani::stub(std::sync::Arc::drop_slow, stubs::arc_drop_slow),
             kani::stub(parking_lot::RawMutex::lock_slow, stubs::mutex_lock_slow),
             kani::stub(parking_lot::RawMutex::unlock_slow, stubs::mutex_unlock_slow),
             kani::stub(parking_lot::RawRwLock::lock_shared_slow, stubs::rw_lock_shared_slow),
             kani::stub(parking_lot::RawRwLock::lock_exclusive_slow, stubs::rw_lock_exclusive_slow),
             kani::stub(parking_lot::RawRwLock::unlock_shared_slow, stubs::rw_unlock_shared_slow),
             kani::stub(parking_lot::RawRwLock::unlock_exclusive_slow, stubs::rw_unlock_exclusive_slow),
             kani::stub(crate::metrics::Metrics::add, mrec::add),
             kani::stub(crate::metrics::Metrics::is_op, mrec::is_op),
             $($k),*]
            fn $name() $body
        }
    };
}
pub(crate) use policy_harness;

policy_harness! {
    [kani::unwind(6)]
    fn c15_worker_applies() {
        // the policy worker applies a flushed batch: every key of the batch is recorded
        let m = Arc::new(mrec::make(false));
        let mut admit = any_tinylfu(4, 9);
        admit.clear();
        nd::assume(admit.samples > 4);
        let (s, _e) = any_slfu(0);
        let (p, w) = mk_policy(admit, s, m);
        let k = nd::any_u64();
        let n = nd::any_usize_in(1, 3);
        let b = [nd::any_u64(), nd::any_u64(), nd::any_u64()];
        let mut batch = Vec::with_capacity(3);
        let mut cnt = 0i64;
        let mut i = 0;
        while i < n {
            batch.push(b[i]);
            if b[i] == k {
                cnt += 1;
            }
            i += 1;
        }
        if nd::any_bool() {
            w.handle_items(Ok(batch));
            vassert!(policy_estimate(&p, k) >= cnt, "once a flushed batch is processed the key's estimate reflects those lookups");
            vassert!(policy_w(&p) == n, "every lookup of the batch counts toward the aging period");
            vcover!(cnt == 3, "same key three times");
            vcover!(cnt == 0, "key not in batch");
        } else {
            w.handle_items(Err(crossbeam_channel::RecvError));
            vassert!(policy_estimate(&p, k) == 0 && policy_w(&p) == 0, "a receive error changes nothing and does not panic");
            vcover!(true, "error path");
        }
    }
}

policy_harness! {
    [kani::unwind(6)]
    fn c01_policy_ops() {
        // the policy's locked wrappers around SampledLFU: remove / update / clear / cost /
        // contains / cap / max_cost / update_max_cost from an arbitrary I-P state
        let m = Arc::new(mrec::make(false));
        let (s, ents) = any_slfu(3);
        let mc0 = s.get_max_cost();
        let (p, _w) = mk_policy(any_tinylfu(1, 6), s, m);
        let k = nd::any_u64();
        let c = nd::any_i64_in(0, COST_MAX);
        let before = ghost_get(&ents, k);
        let used0 = ghost_sum(&ents);
        vassert!(p.contains(&k) == before.is_some(), "contains reports residency");
        vassert!(p.cost(&k) == before.unwrap_or(-1), "cost reports the per-entry charge, -1 when absent");
        vassert!(p.cap() == mc0 - used0, "cap is max_cost minus the charged total");
        vassert!(p.max_cost() == mc0, "max_cost() reports the configured value");
        let op = nd::any_u8_in(0, 3);
        if op == 0 {
            p.remove(&k);
            vassert!(!p.contains(&k) && policy_used(&p) == used0 - before.unwrap_or(0), "remove releases exactly the entry's charge");
            vcover!(before.is_some(), "removed a resident");
        } else if op == 1 {
            p.update(&k, c);
            if before.is_some() {
                vassert!(p.cost(&k) == c && policy_used(&p) == used0 - before.unwrap() + c, "update re-charges the entry");
            } else {
                vassert!(!p.contains(&k) && policy_used(&p) == used0, "update of an absent key changes nothing");
            }
            vcover!(before.is_some(), "updated a resident");
        } else if op == 2 {
            p.clear();
            vassert!(policy_used(&p) == 0 && policy_len(&p) == 0, "clear releases every charge");
            vassert!(policy_estimate(&p, k) == 0, "clear zeroes the popularity estimator");
            vcover!(used0 > 0, "clear of a charged policy");
        } else {
            let m2 = nd::any_i64_in(-COST_MAX, COST_MAX);
            p.update_max_cost(m2);
            vassert!(p.max_cost() == m2 && p.cap() == m2 - used0, "update_max_cost takes effect for the next computation");
            vcover!(m2 < used0, "lowered below the charged total");
        }
        let (sum, _n, nonneg) = policy_sum(&p);
        vassert!(policy_used(&p) == sum && nonneg, "I-P: charged total equals the sum of per-entry charges");
    }
}
