//! Environment for the harnesses: virtual clock, Kani stubs, yield points, recording callbacks.
//! Mounted as `crate::verif_env` under `--cfg transparencies_stretto_verif`.
#![allow(dead_code, unused_imports)]

/// Virtual clock. `ttl.rs` uses this `SystemTime` instead of `std::time::SystemTime` under the
/// guard. Readings are set by the harness (symbolic under Kani, recorded under native replay).
/// Contract assumed by every harness: successive readings are non-decreasing.
pub mod clock {
    use std::sync::atomic::{AtomicU32, AtomicU64, Ordering};
    use std::time::Duration;

    static NOW_SECS: AtomicU64 = AtomicU64::new(1_000_000);
    static NOW_NANOS: AtomicU32 = AtomicU32::new(0);

    #[derive(Copy, Clone, Eq, PartialEq, Ord, PartialOrd, Hash, Debug)]
    pub struct SystemTime(Duration);

    #[derive(Debug)]
    pub struct ClockWentBackwards;

    pub const UNIX_EPOCH: SystemTime = SystemTime(Duration::ZERO);

    impl SystemTime {
        pub fn now() -> Self {
            SystemTime(Duration::new(
                NOW_SECS.load(Ordering::SeqCst),
                NOW_NANOS.load(Ordering::SeqCst),
            ))
        }
        pub fn at(d: Duration) -> Self {
            SystemTime(d)
        }
        pub fn since_epoch(&self) -> Duration {
            self.0
        }
        pub fn duration_since(&self, earlier: SystemTime) -> Result<Duration, ClockWentBackwards> {
            self.0.checked_sub(earlier.0).ok_or(ClockWentBackwards)
        }
        pub fn elapsed(&self) -> Result<Duration, ClockWentBackwards> {
            SystemTime::now().duration_since(*self)
        }
    }

    /// set the clock (harness only)
    pub fn set(secs: u64, nanos: u32) {
        NOW_SECS.store(secs, Ordering::SeqCst);
        NOW_NANOS.store(nanos, Ordering::SeqCst);
    }
    pub fn get() -> Duration {
        SystemTime::now().0
    }
    /// advance to an arbitrary later-or-equal instant at most `max_secs` seconds ahead
    pub fn advance_nd(max_secs: u64) -> Duration {
        use crate::verif_nd as nd;
        let cur = get();
        let ds = nd::any_u64();
        nd::assume(ds <= max_secs);
        let nn = nd::any_u32();
        nd::assume(nn < 1_000_000_000);
        let s = cur.as_secs() + ds;
        nd::assume(ds > 0 || nn >= cur.subsec_nanos());
        set(s, nn);
        get()
    }
    /// set to an arbitrary instant: base seconds in [lo, hi], arbitrary nanoseconds
    pub fn set_nd(lo: u64, hi: u64) -> Duration {
        use crate::verif_nd as nd;
        let s = nd::any_u64();
        nd::assume(s >= lo && s <= hi);
        let nn = nd::any_u32();
        nd::assume(nn < 1_000_000_000);
        set(s, nn);
        get()
    }
}

/// Yield points (DESIGN 3.4): a harness-installed interposition callback.
pub mod yp {
    use std::sync::atomic::{AtomicUsize, Ordering};

    #[derive(Copy, Clone, Eq, PartialEq, Debug)]
    pub enum Y {
        ItemAfterPolicyAdd,
        ItemAfterStoreInsert,
        UpdAfterStore,
        RemAfterStore,
        ClearAfterSignal,
        ClearAfterPolicy,
        CleanupBetween,
    }

    static HOOK: AtomicUsize = AtomicUsize::new(0);

    pub fn install(f: fn(Y)) {
        HOOK.store(f as usize, Ordering::SeqCst);
    }
    pub fn uninstall() {
        HOOK.store(0, Ordering::SeqCst);
    }
    #[inline]
    pub fn yield_point(y: Y) {
        let h = HOOK.load(Ordering::SeqCst);
        if h != 0 {
            let f: fn(Y) = unsafe { std::mem::transmute::<usize, fn(Y)>(h) };
            f(y);
        }
    }
}

/// Stubs used under Kani (`-Z stubbing`). Each is listed in the evidence of the harness using it.
#[cfg(kani)]
pub mod stubs {
    use std::time::Instant;

    // parking_lot slow paths: reaching them means a lock was contended on a single thread, i.e. a
    // self-deadlock. Kani proves the panic unreachable; if it is reachable that is a finding.
    pub fn mutex_lock_slow(_m: &parking_lot::RawMutex, _t: Option<Instant>) -> bool {
        panic!("VERIF: parking_lot::RawMutex::lock_slow reached (self-deadlock)")
    }
    pub fn rw_lock_shared_slow(_m: &parking_lot::RawRwLock, _r: bool, _t: Option<Instant>) -> bool {
        panic!("VERIF: parking_lot::RawRwLock::lock_shared_slow reached (self-deadlock)")
    }
    pub fn rw_lock_exclusive_slow(_m: &parking_lot::RawRwLock, _t: Option<Instant>) -> bool {
        panic!("VERIF: parking_lot::RawRwLock::lock_exclusive_slow reached (self-deadlock)")
    }
    pub fn fmt_format(_a: std::fmt::Arguments<'_>) -> String {
        String::new()
    }
}
