//! Environment for the harnesses: virtual clock, Kani stubs, yield points, recording callbacks.
//! Mounted as `crate::verif_env` under `--cfg transparencies_stretto_verif`.
#![allow(dead_code, unused_imports)]

/// Virtual clock. `ttl.rs` uses this `SystemTime` instead of `std::time::SystemTime` under the
/// guard. Readings are set by the harness (symbolic under Kani, recorded under native replay).
/// Contract assumed by every harness: successive readings are non-decreasing.
pub mod clock {
    use std::sync::atomic::{AtomicU32, AtomicU64, Ordering};
    use std::time::Duration;

    static NOW_SECS: AtomicU64 = AtomicU64::new(1_000_000);
    static NOW_NANOS: AtomicU32 = AtomicU32::new(0);

    #[derive(Copy, Clone, Eq, PartialEq, Ord, PartialOrd, Hash, Debug)]
    pub struct SystemTime(Duration);

    #[derive(Debug)]
    pub struct ClockWentBackwards;

    pub const UNIX_EPOCH: SystemTime = SystemTime(Duration::ZERO);

    impl SystemTime {
        pub fn now() -> Self {
            SystemTime(Duration::new(
                NOW_SECS.load(Ordering::SeqCst),
                NOW_NANOS.load(Ordering::SeqCst),
            ))
        }
        pub fn at(d: Duration) -> Self {
            SystemTime(d)
        }
        pub fn since_epoch(&self) -> Duration {
            self.0
        }
        pub fn duration_since(&self, earlier: SystemTime) -> Result<Duration, ClockWentBackwards> {
            self.0.checked_sub(earlier.0).ok_or(ClockWentBackwards)
        }
        pub fn elapsed(&self) -> Result<Duration, ClockWentBackwards> {
            SystemTime::now().duration_since(*self)
        }
    }

    /// set the clock (harness only)
    pub fn set(secs: u64, nanos: u32) {
        NOW_SECS.store(secs, Ordering::SeqCst);
        NOW_NANOS.store(nanos, Ordering::SeqCst);
    }
    pub fn get() -> Duration {
        SystemTime::now().0
    }
    /// advance to an arbitrary later-or-equal instant at most `max_secs` seconds ahead
    pub fn advance_nd(max_secs: u64) -> Duration {
        use crate::verif_nd as nd;
        let cur = get();
        let ds = nd::any_u64();
        nd::assume(ds <= max_secs);
        let nn = nd::any_u32();
        nd::assume(nn < 1_000_000_000);
        let s = cur.as_secs() + ds;
        nd::assume(ds > 0 || nn >= cur.subsec_nanos());
        set(s, nn);
        get()
    }
    /// set to an arbitrary instant: base seconds in [lo, hi], arbitrary nanoseconds
    pub fn set_nd(lo: u64, hi: u64) -> Duration {
        use crate::verif_nd as nd;
        let s = nd::any_u64();
        nd::assume(s >= lo && s <= hi);
        let nn = nd::any_u32();
        nd::assume(nn < 1_000_000_000);
        set(s, nn);
        get()
    }
}

/// Yield points (DESIGN 3.4): a harness-installed interposition callback.
pub mod yp {
    #[derive(Copy, Clone, Eq, PartialEq, Debug)]
    pub enum Y {
        ItemAfterPolicyAdd,
        ItemAfterStoreInsert,
        UpdAfterStore,
        RemAfterStore,
        ClearAfterSignal,
        ClearAfterPolicy,
        CleanupBetween,
    }

    // a plain function pointer (never an integer: int-to-pointer casts make CBMC consider every
    // function a possible target)
    static mut HOOK: Option<fn(Y)> = None;

    pub fn install(f: fn(Y)) {
        unsafe {
            HOOK = Some(f);
        }
    }
    pub fn uninstall() {
        unsafe {
            HOOK = None;
        }
    }
    #[inline]
    pub fn yield_point(y: Y) {
        if let Some(f) = unsafe { HOOK } {
            f(y);
        }
    }
}

/// Stubs used under Kani (`-Z stubbing`). Each is listed in the evidence of the harness using it.
#[cfg(kani)]
pub mod stubs {
    use std::time::Instant;

    // parking_lot slow paths: reaching them means a lock was contended on a single thread, i.e. a
    // self-deadlock. Kani proves the panic unreachable; if it is reachable that is a finding.
    pub fn mutex_lock_slow(_m: &parking_lot::RawMutex, _t: Option<Instant>) -> bool {
        panic!("VERIF: parking_lot::RawMutex::lock_slow reached (self-deadlock)")
    }
    pub fn rw_lock_shared_slow(_m: &parking_lot::RawRwLock, _r: bool, _t: Option<Instant>) -> bool {
        panic!("VERIF: parking_lot::RawRwLock::lock_shared_slow reached (self-deadlock)")
    }
    pub fn rw_lock_exclusive_slow(_m: &parking_lot::RawRwLock, _t: Option<Instant>) -> bool {
        panic!("VERIF: parking_lot::RawRwLock::lock_exclusive_slow reached (self-deadlock)")
    }
    // unlock slow paths: taken only when another thread is parked on the lock; on one thread that
    // cannot be the case, and Kani proves these panics unreachable too
    pub fn mutex_unlock_slow(_m: &parking_lot::RawMutex, _f: bool) {
        panic!("VERIF: parking_lot::RawMutex::unlock_slow reached (a thread is parked on the lock)")
    }
    pub fn rw_unlock_exclusive_slow(_m: &parking_lot::RawRwLock, _f: bool) {
        panic!("VERIF: parking_lot::RawRwLock::unlock_exclusive_slow reached")
    }
    pub fn rw_unlock_shared_slow(_m: &parking_lot::RawRwLock) {
        panic!("VERIF: parking_lot::RawRwLock::unlock_shared_slow reached")
    }
    pub fn cv_notify_all_slow(_c: &parking_lot::Condvar, _m: *mut parking_lot::RawMutex) -> usize {
        panic!("VERIF: parking_lot::Condvar::notify_all_slow reached (a thread waits on the condvar)")
    }
    pub fn cv_notify_one_slow(_c: &parking_lot::Condvar, _m: *mut parking_lot::RawMutex) -> bool {
        panic!("VERIF: parking_lot::Condvar::notify_one_slow reached")
    }
    /// `Arc::drop_slow` (destruction of the value when the last reference goes away) is replaced
    /// by a leak: no property is about destructors, and CBMC cannot see reference counts through
    /// the Arc allocation, so it would explore the destructor of every Arc'd object (BTreeMap of
    /// Metrics::Op, channels, maps) at every Arc drop.
    pub unsafe fn arc_drop_slow<T: ?Sized, A: std::alloc::Allocator>(_a: &mut std::sync::Arc<T, A>) {}
    /// `WaitGroup::wait` parks the thread (Condvar): cannot run under Kani. On one thread, with
    /// the only other party (the processor) already run to completion by the harness, "the counter
    /// is still positive" IS "blocks forever": the stub asserts the counter reached zero.
    pub fn wg_wait(w: &wg::WaitGroup) {
        if let Some(f) = unsafe { WG_DRIVER } {
            f();
        }
        assert!(w.waitings() == 0, "wait() would block forever: the Wait marker was never released");
    }
    pub static mut WG_DRIVER: Option<fn()> = None;
    pub fn fmt_format(_a: std::fmt::Arguments<'_>) -> String {
        String::new()
    }
}

/// Hasher used for every map of the fixtures (natively a real `HashMap` with this hasher).
pub type HS = std::hash::BuildHasherDefault<crate::TransparentHasher>;

#[cfg(kani)]
pub type Map<K, V> = crate::verif_kmap::HashMap<K, V, HS>;
#[cfg(not(kani))]
pub type Map<K, V> = std::collections::HashMap<K, V, HS>;

/// The `Vec` the policy / ring modules use: the bounded model under Kani, std natively.
#[cfg(kani)]
pub type KVec<T> = crate::verif_kvec::Vec<T>;
#[cfg(not(kani))]
pub type KVec<T> = std::vec::Vec<T>;

#[cfg(kani)]
pub fn kv<T: Copy + Default>(s: &[T]) -> KVec<T> {
    crate::verif_kvec::Vec::from_slice(s)
}
#[cfg(not(kani))]
pub fn kv<T: Copy + Default>(s: &[T]) -> KVec<T> {
    s.to_vec()
}

/// Build a map from (up to 3) entries placed in the given slots. Under Kani the slot positions are
/// the iteration order; natively the real HashMap decides. Keys must be distinct (caller assumes).
#[cfg(kani)]
pub fn hm_from<K: Eq + std::hash::Hash, V>(slots: [Option<(K, V)>; 3]) -> Map<K, V> {
    crate::verif_kmap::HashMap::from_slots(slots, HS::default())
}
#[cfg(not(kani))]
pub fn hm_from<K: Eq + std::hash::Hash, V>(slots: [Option<(K, V)>; 3]) -> Map<K, V> {
    let mut m = std::collections::HashMap::with_hasher(HS::default());
    for s in slots {
        if let Some((k, v)) = s {
            m.insert(k, v);
        }
    }
    m
}

// ================================================================================================
// Channel FIFO contract (Kani only): crossbeam-channel cannot be compiled by Kani (TLS
// destructors), so the operations stretto uses are stubbed by a bounded FIFO:
//   try_send fails with Full at capacity; try_recv fails with Empty; FIFO order.
// Queues are told apart by message size: zero-sized = the unbounded clear-signal channel,
// size_of::<Vec<u64>>() = the policy's batch channel, anything else = the insert buffer.
// ================================================================================================
#[cfg(kani)]
pub mod chan {
    use crossbeam_channel::{Receiver, SendError, Sender, TryRecvError, TrySendError};
    use std::mem::size_of;

    pub const QMAX: usize = 4;
    // typed raw pointers, never integers: an int-to-pointer cast makes CBMC consider every object
    // of the program as a possible target of the dereference
    static mut Q_PTR: [*mut u8; QMAX] = [std::ptr::null_mut(); QMAX];
    static mut Q_LEN: usize = 0;
    static mut Q_CAP: usize = 1;
    static mut U_LEN: usize = 0;
    static mut P_PTR: [*mut u8; QMAX] = [std::ptr::null_mut(); QMAX];
    static mut P_LEN: usize = 0;
    static mut P_CAP: usize = 3;

    pub fn reset(insert_buf_cap: usize) {
        unsafe {
            Q_LEN = 0;
            Q_CAP = insert_buf_cap;
            U_LEN = 0;
            P_LEN = 0;
        }
    }
    pub fn insert_buf_len() -> usize {
        unsafe { Q_LEN }
    }
    pub fn clear_signals() -> usize {
        unsafe { U_LEN }
    }

    fn is_batch<T>() -> bool {
        size_of::<T>() == size_of::<crate::verif_kvec::Vec<u64>>()
    }

    pub fn try_send<T>(_s: &Sender<T>, msg: T) -> Result<(), TrySendError<T>> {
        unsafe {
            if size_of::<T>() == 0 {
                U_LEN += 1;
                std::mem::forget(msg);
                return Ok(());
            }
            if is_batch::<T>() {
                if P_LEN >= P_CAP || P_LEN >= QMAX {
                    return Err(TrySendError::Full(msg));
                }
                P_PTR[P_LEN] = Box::into_raw(Box::new(msg)) as *mut u8;
                P_LEN += 1;
                return Ok(());
            }
            if Q_LEN >= Q_CAP || Q_LEN >= QMAX {
                return Err(TrySendError::Full(msg));
            }
            Q_PTR[Q_LEN] = Box::into_raw(Box::new(msg)) as *mut u8;
            Q_LEN += 1;
            Ok(())
        }
    }

    /// blocking send: only used by stretto on the unbounded clear channel (never blocks there);
    /// a blocking send on a full bounded channel would block forever on one thread.
    pub fn send<T>(s: &Sender<T>, msg: T) -> Result<(), SendError<T>> {
        match try_send(s, msg) {
            Ok(()) => Ok(()),
            Err(_) => panic!("VERIF: blocking send on a full channel (would block forever on one thread)"),
        }
    }

    pub fn try_recv<T>(_r: &Receiver<T>) -> Result<T, TryRecvError> {
        unsafe {
            if size_of::<T>() == 0 {
                if U_LEN == 0 {
                    return Err(TryRecvError::Empty);
                }
                U_LEN -= 1;
                return Ok(std::mem::MaybeUninit::<T>::uninit().assume_init());
            }
            if is_batch::<T>() {
                if P_LEN == 0 {
                    return Err(TryRecvError::Empty);
                }
                let p = P_PTR[0];
                let mut i = 1;
                while i < QMAX {
                    P_PTR[i - 1] = P_PTR[i];
                    i += 1;
                }
                P_LEN -= 1;
                return Ok(*Box::from_raw(p as *mut T));
            }
            if Q_LEN == 0 {
                return Err(TryRecvError::Empty);
            }
            let p = Q_PTR[0];
            let mut i = 1;
            while i < QMAX {
                Q_PTR[i - 1] = Q_PTR[i];
                i += 1;
            }
            Q_LEN -= 1;
            Ok(*Box::from_raw(p as *mut T))
        }
    }

    pub fn s_is_empty<T>(_s: &Sender<T>) -> bool {
        unsafe {
            if size_of::<T>() == 0 {
                U_LEN == 0
            } else if is_batch::<T>() {
                P_LEN == 0
            } else {
                Q_LEN == 0
            }
        }
    }
    pub fn s_len<T>(_s: &Sender<T>) -> usize {
        unsafe {
            if size_of::<T>() == 0 {
                U_LEN
            } else if is_batch::<T>() {
                P_LEN
            } else {
                Q_LEN
            }
        }
    }

    pub fn is_empty<T>(_r: &Receiver<T>) -> bool {
        unsafe {
            if size_of::<T>() == 0 {
                U_LEN == 0
            } else if is_batch::<T>() {
                P_LEN == 0
            } else {
                Q_LEN == 0
            }
        }
    }

    /// `select!{ send(..) -> .., default => .. }` goes through `internal::try_select`; its Ok value
    /// cannot be produced by a stub, so only the "nothing ready -> default" outcome is executed.
    /// never reached (try_select never selects); stubbed so that crossbeam's channel-write path
    /// (thread-local wake-up machinery that Kani cannot compile) is not in the call graph
    pub fn sel_send<'a, T>(op: crossbeam_channel::SelectedOperation<'a>, _s: &Sender<T>, _msg: T) -> Result<(), SendError<T>>
    where
        'a: 'a,
    {
        std::mem::forget(op);
        panic!("VERIF: SelectedOperation::send reached although try_select never selects")
    }

    pub fn try_select<'a>(
        _handles: &mut [(&'a dyn crossbeam_channel::internal::SelectHandle, usize, *const u8)],
        _is_biased: bool,
    ) -> Result<crossbeam_channel::SelectedOperation<'a>, crossbeam_channel::TrySelectError> {
        Err(crossbeam_channel::TrySelectError)
    }
}
#[cfg(not(kani))]
pub mod chan {
    pub fn reset(_insert_buf_cap: usize) {}
}

// ================================================================================================
// Metrics recorder (Kani only): `Metrics::add/is_op/clear/track_eviction` are stubbed by an
// 11-counter recorder in harnesses that are about the CALL SITES of metrics (C17); the real
// striped-atomics implementation is decided separately (c17_metrics_inner).
// ================================================================================================
pub mod mrec {
    use crate::metrics::{MetricType, Metrics};
    #[cfg(kani)]
    static mut CNT: [u64; 12] = [0; 12];
    #[cfg(kani)]
    static mut ON: bool = false;
    #[cfg(kani)]
    static mut TRACKED: u64 = 0;

    #[cfg(kani)]
    pub fn enable(on: bool) {
        unsafe {
            ON = on;
            CNT = [0; 12];
            TRACKED = 0;
        }
    }
    #[cfg(not(kani))]
    pub fn enable(_on: bool) {}

    /// the metrics object for a fixture: under Kani always `Noop` (calls are recorded by the
    /// stubs when enabled); natively the real thing
    pub fn make(on: bool) -> Metrics {
        enable(on);
        #[cfg(kani)]
        {
            Metrics::Noop
        }
        #[cfg(not(kani))]
        {
            if on {
                Metrics::new_op()
            } else {
                Metrics::new()
            }
        }
    }

    #[cfg(kani)]
    pub fn add(_m: &Metrics, typ: MetricType, _hash: u64, delta: u64) -> bool {
        unsafe {
            if !ON {
                return false;
            }
            let i = typ as usize;
            CNT[i] = CNT[i].wrapping_add(delta);
            true
        }
    }
    #[cfg(kani)]
    pub fn is_op(_m: &Metrics) -> bool {
        unsafe { ON }
    }
    #[cfg(kani)]
    pub fn clear(_m: &Metrics) {
        unsafe {
            CNT = [0; 12];
            TRACKED = 0;
        }
    }
    #[cfg(kani)]
    pub fn track_eviction(_m: &Metrics, _secs: i64) {
        unsafe {
            if ON {
                TRACKED += 1;
            }
        }
    }

    /// read a counter (works in both builds)
    pub fn get(_m: &Metrics, typ: MetricType) -> u64 {
        #[cfg(kani)]
        unsafe {
            CNT[typ as usize]
        }
        #[cfg(not(kani))]
        {
            let m = _m;
            (match typ {
                MetricType::Hit => m.get_hits(),
                MetricType::Miss => m.get_misses(),
                MetricType::KeyAdd => m.get_keys_added(),
                MetricType::KeyUpdate => m.get_keys_updated(),
                MetricType::KeyEvict => m.get_keys_evicted(),
                MetricType::CostAdd => m.get_cost_added(),
                MetricType::CostEvict => m.get_cost_evicted(),
                MetricType::DropSets => m.get_sets_dropped(),
                MetricType::RejectSets => m.get_sets_rejected(),
                MetricType::DropGets => m.get_gets_dropped(),
                MetricType::KeepGets => m.get_gets_kept(),
                MetricType::DoNotUse => Some(0),
            })
            .unwrap_or(0)
        }
    }
    pub fn tracked(_m: &Metrics) -> u64 {
        #[cfg(kani)]
        unsafe {
            TRACKED
        }
        #[cfg(not(kani))]
        {
            0
        }
    }
}

// ================================================================================================
// Recording callback / coster / key builders for the cache-level fixtures
// ================================================================================================
pub mod rec {
    use crate::{CacheCallback, Coster, Item, KeyBuilder};
    use std::sync::atomic::{AtomicI64, AtomicU64, AtomicU8, Ordering};

    /// number of distinct value tags (values are small integers 0..NT)
    pub const NT: usize = 4;

    fn z8() -> [AtomicU8; NT] {
        [AtomicU8::new(0), AtomicU8::new(0), AtomicU8::new(0), AtomicU8::new(0)]
    }
    fn z64() -> [AtomicI64; NT] {
        [AtomicI64::new(0), AtomicI64::new(0), AtomicI64::new(0), AtomicI64::new(0)]
    }
    fn zu64() -> [AtomicU64; NT] {
        [AtomicU64::new(0), AtomicU64::new(0), AtomicU64::new(0), AtomicU64::new(0)]
    }

    /// per-value-tag counters of the three callbacks, plus the cost/index reported with the item
    pub struct RecCb {
        pub exit: [AtomicU8; NT],
        pub evict: [AtomicU8; NT],
        pub reject: [AtomicU8; NT],
        pub cost: [AtomicI64; NT],
        pub index: [AtomicU64; NT],
        pub bad: AtomicU8,
    }
    impl RecCb {
        pub fn new() -> Self {
            Self { exit: z8(), evict: z8(), reject: z8(), cost: z64(), index: zu64(), bad: AtomicU8::new(0) }
        }
        pub fn exits(&self, t: u64) -> u8 {
            self.exit[t as usize].load(Ordering::SeqCst)
        }
        pub fn evicts(&self, t: u64) -> u8 {
            self.evict[t as usize].load(Ordering::SeqCst)
        }
        pub fn rejects(&self, t: u64) -> u8 {
            self.reject[t as usize].load(Ordering::SeqCst)
        }
        pub fn total(&self, t: u64) -> u8 {
            self.exits(t) + self.evicts(t) + self.rejects(t)
        }
        pub fn cost_of(&self, t: u64) -> i64 {
            self.cost[t as usize].load(Ordering::SeqCst)
        }
        pub fn index_of(&self, t: u64) -> u64 {
            self.index[t as usize].load(Ordering::SeqCst)
        }
        pub fn all(&self) -> u32 {
            let mut n = 0u32;
            let mut t = 0;
            while t < NT as u64 {
                n += self.total(t) as u32;
                t += 1;
            }
            n
        }
    }
    impl CacheCallback for RecCb {
        type Value = u64;
        fn on_exit(&self, val: Option<u64>) {
            match val {
                Some(v) if (v as usize) < NT => {
                    self.exit[v as usize].fetch_add(1, Ordering::SeqCst);
                }
                _ => {
                    self.bad.fetch_add(1, Ordering::SeqCst);
                }
            }
        }
        fn on_evict(&self, item: Item<u64>) {
            match item.val {
                Some(v) if (v as usize) < NT => {
                    self.evict[v as usize].fetch_add(1, Ordering::SeqCst);
                    self.cost[v as usize].store(item.cost, Ordering::SeqCst);
                    self.index[v as usize].store(item.index, Ordering::SeqCst);
                }
                _ => {
                    self.bad.fetch_add(1, Ordering::SeqCst);
                }
            }
        }
        fn on_reject(&self, item: Item<u64>) {
            match item.val {
                Some(v) if (v as usize) < NT => {
                    self.reject[v as usize].fetch_add(1, Ordering::SeqCst);
                    self.cost[v as usize].store(item.cost, Ordering::SeqCst);
                    self.index[v as usize].store(item.index, Ordering::SeqCst);
                }
                _ => {
                    self.bad.fetch_add(1, Ordering::SeqCst);
                }
            }
        }
    }

    /// Coster with one arbitrary (harness-chosen) valuation per value tag: "every Coster function"
    pub struct TabCoster {
        pub tab: [i64; NT],
        pub calls: AtomicU8,
    }
    impl Coster for TabCoster {
        type Value = u64;
        fn cost(&self, val: &u64) -> i64 {
            self.calls.fetch_add(1, Ordering::SeqCst);
            self.tab[(*val as usize) % NT]
        }
    }

    /// Key builder for u64 keys that forces collisions: index = k >> 4, conflict = k & 15
    /// (two keys with equal k >> 4 share the index hash and differ in conflict hash unless one
    /// of them has conflict 0).
    #[derive(Default)]
    pub struct CollidingKb;
    impl KeyBuilder for CollidingKb {
        type Key = u64;
        fn hash_index<Q>(&self, key: &Q) -> u64
        where
            u64: core::borrow::Borrow<Q>,
            Q: core::hash::Hash + Eq + ?Sized,
        {
            use core::hash::Hasher;
            let mut h = crate::TransparentHasher::default();
            key.hash(&mut h);
            h.finish() >> 4
        }
        fn hash_conflict<Q>(&self, key: &Q) -> u64
        where
            u64: core::borrow::Borrow<Q>,
            Q: core::hash::Hash + Eq + ?Sized,
        {
            use core::hash::Hasher;
            let mut h = crate::TransparentHasher::default();
            key.hash(&mut h);
            h.finish() & 15
        }
    }
}

// ================================================================================================
// Recorder behind `LFUPolicy::push` (Kani only; C15): the body of push is a crossbeam `select!`
// that cannot be executed, so in the harnesses that exercise the ring buffer / Cache::get wiring
// push is replaced by a recorder that notes every handed-over batch and answers kept / dropped /
// error as the solver chooses.
// ================================================================================================
pub mod pushrec {
    #[cfg(kani)]
    pub const FMAX: usize = 8;
    #[cfg(kani)]
    static mut FLAT: [u64; FMAX] = [0; FMAX];
    #[cfg(kani)]
    static mut FLAT_LEN: usize = 0;
    #[cfg(kani)]
    static mut BATCHES: usize = 0;
    #[cfg(kani)]
    static mut LAST_LEN: usize = 0;
    #[cfg(kani)]
    static mut MIN_LEN: usize = usize::MAX;

    #[cfg(kani)]
    pub fn reset() {
        unsafe {
            FLAT_LEN = 0;
            BATCHES = 0;
            LAST_LEN = 0;
            MIN_LEN = usize::MAX;
        }
    }
    #[cfg(kani)]
    pub fn push<S>(_p: &crate::policy::LFUPolicy<S>, keys: crate::verif_kvec::Vec<u64>) -> Result<bool, crate::CacheError> {
        unsafe {
            let mut i = 0;
            while i < keys.len() {
                if FLAT_LEN < FMAX {
                    FLAT[FLAT_LEN] = keys[i];
                    FLAT_LEN += 1;
                }
                i += 1;
            }
            BATCHES += 1;
            LAST_LEN = keys.len();
            if keys.len() < MIN_LEN {
                MIN_LEN = keys.len();
            }
        }
        let a = crate::verif_nd::any_u8();
        if a == 0 {
            Ok(true)
        } else if a == 1 {
            Ok(false)
        } else {
            // an error without heap payload (the ring treats every non-Ok(true) answer alike)
            Err(crate::CacheError::InvalidBufferSize)
        }
    }
    #[cfg(kani)]
    pub fn flat(i: usize) -> u64 {
        unsafe { FLAT[i] }
    }
    #[cfg(kani)]
    pub fn flat_len() -> usize {
        unsafe { FLAT_LEN }
    }
    #[cfg(kani)]
    pub fn batches() -> usize {
        unsafe { BATCHES }
    }
    #[cfg(kani)]
    pub fn last_len() -> usize {
        unsafe { LAST_LEN }
    }
    #[cfg(kani)]
    pub fn min_len() -> usize {
        unsafe { MIN_LEN }
    }
}
