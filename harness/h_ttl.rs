//! C03 (time kernel), C05 (bucket arithmetic, ExpirationMap step lemmas). Child of `crate::ttl`.
#![allow(dead_code, unused_imports)]
use super::*;
use crate::verif_env::{clock, hm_from, Map, HS};
use crate::verif_nd::{self as nd, harness, vassert, vcover};

pub(crate) const SECS_MAX: u64 = 1 << 40;

pub(crate) fn any_duration(max_secs: u64) -> Duration {
    let s = nd::any_u64();
    nd::assume(s <= max_secs);
    let n = nd::any_u32();
    nd::assume(n < 1_000_000_000);
    Duration::new(s, n)
}

/// a `Time` created at an arbitrary instant with an arbitrary TTL (zero allowed = no TTL)
pub(crate) fn any_time(max_secs: u64) -> Time {
    Time {
        d: any_duration(max_secs),
        created_at: SystemTime::at(any_duration(max_secs)),
    }
}

pub(crate) fn time_at(created: Duration, d: Duration) -> Time {
    Time {
        d,
        created_at: SystemTime::at(created),
    }
}

pub(crate) fn deadline(t: &Time) -> Duration {
    t.created_at.since_epoch() + t.d
}
pub(crate) fn created(t: &Time) -> Duration {
    t.created_at.since_epoch()
}
pub(crate) fn ttl_of(t: &Time) -> Duration {
    t.d
}
pub(crate) fn bucket_of(t: Time) -> i64 {
    storage_bucket(t)
}

harness! {
    []
    fn c03_time_kernel() {
        // full width: seconds < 2^40, every nanosecond value
        let t = any_time(SECS_MAX);
        let c = created(&t);
        let d = t.d;
        let now1 = any_duration(2 * SECS_MAX);
        let now2 = any_duration(2 * SECS_MAX);
        nd::assume(c <= now1 && now1 <= now2);
        clock::set(now1.as_secs(), now1.subsec_nanos());
        let el1 = now1 - c;
        vassert!(t.elapsed() == el1, "elapsed is now - created");
        vassert!(t.is_expired() == (d <= el1), "is_expired iff the TTL has fully elapsed since the insert");
        let ttl1 = t.get_ttl();
        if d.is_zero() {
            vassert!(t.is_zero(), "zero duration means no TTL");
            vassert!(ttl1 == Duration::MAX, "no TTL: no expiry is reported");
        } else if el1 >= d {
            vassert!(ttl1 == Duration::ZERO, "elapsed TTL reports zero remaining time");
        } else {
            vassert!(ttl1 == d - el1, "remaining time is d - elapsed");
            vassert!(ttl1 <= d && !ttl1.is_zero(), "remaining time is at most d and positive before the deadline");
        }
        clock::set(now2.as_secs(), now2.subsec_nanos());
        let ttl2 = t.get_ttl();
        vassert!(ttl2 <= ttl1, "remaining time never increases");
        vassert!(!t.is_expired() || d <= now2 - c, "never reported expired before the deadline");
        vassert!(t.unix() == (c + d).as_secs(), "unix() is the deadline in whole seconds");
        vcover!(!d.is_zero() && el1 < d && now2 - c >= d, "deadline passes between the two readings");
        vcover!(!d.is_zero() && d.as_secs() == 0 && el1 < d, "sub-second TTL still alive");
        vcover!(d.is_zero(), "no TTL");
        vcover!(c.subsec_nanos() + d.subsec_nanos() >= 1_000_000_000, "deadline carries into the next second");
    }
}

harness! {
    []
    fn c05_bucket_arith() {
        // An entry with deadline D lives in bucket floor(D)+1. A cleanup pass at instant t handles
        // bucket floor(t). Safety: whatever bucket a pass at t is allowed to sweep (<= floor(t))
        // only holds entries whose TTL has elapsed at t. Liveness: every pass at t >= D + 1s covers
        // the entry's bucket.
        let e = any_time(SECS_MAX);
        nd::assume(!e.is_zero());
        let t = any_duration(2 * SECS_MAX);
        nd::assume(t >= created(&e));
        clock::set(t.as_secs(), t.subsec_nanos());
        let now = Time::now();
        let sb = storage_bucket(e);
        let cb = cleanup_bucket(now);
        vassert!(sb == deadline(&e).as_secs() as i64 + 1, "an entry is filed under the second after its deadline");
        vassert!(cb == t.as_secs() as i64, "a pass at t handles the bucket of the second that just ended");
        if sb <= cb {
            vassert!(e.is_expired(), "a bucket that is due only holds entries whose TTL has elapsed");
        }
        if t >= deadline(&e) + Duration::from_secs(1) {
            vassert!(sb <= cb, "one bucket width after the deadline the entry's bucket is due");
        }
        vcover!(sb == cb, "bucket exactly due");
        vcover!(sb < cb, "bucket overdue by more than a second");
        vcover!(sb == cb + 1 && e.is_expired(), "expired but bucket not yet due");
    }
}

// ------------------------------------------------------------------------------ ExpirationMap

/// ghost view of an expiration map: up to 3 (bucket, key, conflict) triples
pub(crate) type EmGhost = [Option<(i64, u64, u64)>; 3];

/// Build an `ExpirationMap` holding exactly the given (bucket, key, conflict) entries.
/// Under Kani bucket placement order is the order given.
pub(crate) fn em_from(g: &EmGhost) -> ExpirationMap<HS> {
    let em = ExpirationMap::with_hasher(HS::default());
    {
        let mut m = em.buckets.write();
        let mut i = 0;
        while i < 3 {
            if let Some((b, k, c)) = g[i] {
                match m.get_mut(&b) {
                    Some(bucket) => {
                        bucket.map.insert(k, c);
                    }
                    None => {
                        let mut bucket = Bucket::with_hasher(HS::default());
                        bucket.map.insert(k, c);
                        m.insert(b, bucket);
                    }
                }
            }
            i += 1;
        }
    }
    em
}

/// is (key -> conflict) listed in bucket b?
pub(crate) fn em_listed(em: &ExpirationMap<HS>, b: i64, k: u64) -> Option<u64> {
    let m = em.buckets.read();
    match m.get(&b) {
        Some(bucket) => bucket.map.get(&k).copied(),
        None => None,
    }
}

/// number of buckets that list key k
pub(crate) fn em_count_key(em: &ExpirationMap<HS>, k: u64) -> usize {
    let m = em.buckets.read();
    let mut n = 0;
    for (_, bucket) in m.iter() {
        if bucket.map.contains_key(&k) {
            n += 1;
        }
    }
    n
}

pub(crate) fn em_total(em: &ExpirationMap<HS>) -> usize {
    let m = em.buckets.read();
    let mut n = 0;
    for (_, bucket) in m.iter() {
        n += bucket.map.len();
    }
    n
}

#[cfg(kani)]
use crate::verif_env::stubs;

fn em_step(op_fixed: Option<u8>, secs_max: u64) {
    // Arbitrary map with one other entry (key g in bucket bg) and possibly the subject key k
    // filed under its old expiration; one real operation on k; the neighbour must stay filed
    // and k must be filed exactly under its new expiration (or nowhere if it has no TTL).
    let k = nd::any_u64();
    let g = nd::any_u64();
    nd::assume(k != g);
    let old = any_time(secs_max);
    let new = any_time(secs_max);
    let other = any_time(secs_max);
    nd::assume(!other.is_zero());
    let bg = storage_bucket(other);
    let cg = nd::any_u64();
    let ck = nd::any_u64();
    let k_present = nd::any_bool();
    let mut ghost: EmGhost = [Some((bg, g, cg)), None, None];
    if k_present && !old.is_zero() {
        ghost[1] = Some((storage_bucket(old), k, ck));
    }
    let em = em_from(&ghost);
    let op = match op_fixed { Some(o) => o, None => nd::any_u8_in(0, 2) };
    let b_old = storage_bucket(old);
    let b_new = storage_bucket(new);
    if op == 0 {
        // insert of a key that is not in the store
        nd::assume(!k_present);
        em.try_insert(k, ck, new).unwrap();
        if new.is_zero() {
            vassert!(em_listed(&em, b_new, k).is_none(), "an entry without TTL is not filed for cleanup");
        } else {
            vassert!(em_listed(&em, b_new, k) == Some(ck), "insert files the key under its deadline bucket");
        }
        vcover!(!new.is_zero() && b_new == bg, "[insert] inserted into the neighbour's bucket");
    } else if op == 1 {
        nd::assume(k_present);
        em.try_update(k, ck, old, new).unwrap();
        if new.is_zero() {
            vassert!(em_listed(&em, b_new, k).is_none(), "re-insert without TTL: the key is no longer filed for cleanup");
        } else {
            vassert!(em_listed(&em, b_new, k) == Some(ck), "update files the key under its new deadline bucket");
        }
        if !old.is_zero() && (new.is_zero() || b_old != b_new) {
            vassert!(em_listed(&em, b_old, k).is_none(), "update removes the old filing of the key");
        }
        vcover!(!old.is_zero() && b_old == bg && !new.is_zero() && b_new != bg, "[update] key moves out of the neighbour's bucket");
        vcover!(old.is_zero() && !new.is_zero() && b_old == b_new, "[update] no-TTL entry gains a TTL in the same second");
        vcover!(!old.is_zero() && new.is_zero(), "[update] TTL dropped");
        vcover!(old.is_zero() && b_old == bg, "[update] old entry had no TTL but its creation second matches the neighbour's bucket");
    } else {
        nd::assume(k_present && !old.is_zero());
        em.try_remove(&k, old).unwrap();
        vassert!(em_listed(&em, b_old, k).is_none(), "remove un-files the key");
        vcover!(b_old == bg, "[remove] removed from the neighbour's bucket");
    }
    vassert!(em_listed(&em, bg, g) == Some(cg), "a neighbour sharing an expiry bucket stays filed for cleanup (I-EM1)");
    std::mem::forget(em);
}

macro_rules! em_harness {
    ($name:ident, $op:expr, $secs:expr) => {
        harness! {
            [kani::unwind(5),
             kani::stub(parking_lot::RawRwLock::lock_shared_slow, stubs::rw_lock_shared_slow),
             kani::stub(parking_lot::RawRwLock::lock_exclusive_slow, stubs::rw_lock_exclusive_slow),
             kani::stub(parking_lot::RawRwLock::unlock_shared_slow, stubs::rw_unlock_shared_slow),
             kani::stub(parking_lot::RawRwLock::unlock_exclusive_slow, stubs::rw_unlock_exclusive_slow)]
            fn $name() {
                em_step($op, $secs);
            }
        }
    };
}
em_harness!(c05_em_step_insert, Some(0), SECS_MAX);
em_harness!(c05_em_step_update, Some(1), SECS_MAX);
em_harness!(c05_em_step_remove, Some(2), SECS_MAX);

harness! {
    [kani::unwind(5),
     kani::stub(parking_lot::RawRwLock::lock_shared_slow, stubs::rw_lock_shared_slow),
             kani::stub(parking_lot::RawRwLock::lock_exclusive_slow, stubs::rw_lock_exclusive_slow),
             kani::stub(parking_lot::RawRwLock::unlock_shared_slow, stubs::rw_unlock_shared_slow),
             kani::stub(parking_lot::RawRwLock::unlock_exclusive_slow, stubs::rw_unlock_exclusive_slow)]
    fn c05_em_cleanup_due() {
        // entries a (deadline Da) and b (deadline Db) filed in the map; a cleanup pass at an
        // arbitrary instant t returns a iff its bucket is due at t, never an entry whose bucket is
        // not due, and un-files what it returns.
        let a = any_time(SECS_MAX);
        let b = any_time(SECS_MAX);
        nd::assume(!a.is_zero() && !b.is_zero());
        let ka = nd::any_u64();
        let kb = nd::any_u64();
        nd::assume(ka != kb);
        let ghost: EmGhost = [Some((storage_bucket(a), ka, 1)), Some((storage_bucket(b), kb, 2)), None];
        let em = em_from(&ghost);
        let t = any_duration(2 * SECS_MAX);
        nd::assume(t >= created(&a) && t >= created(&b));
        clock::set(t.as_secs(), t.subsec_nanos());
        let now = Time::now();
        let due_a = storage_bucket(a) <= cleanup_bucket(now);
        let due_b = storage_bucket(b) <= cleanup_bucket(now);
        let got = em.try_cleanup(now).unwrap();
        let got_a = got.as_ref().map_or(false, |m| m.get(&ka) == Some(&1));
        let got_b = got.as_ref().map_or(false, |m| m.get(&kb) == Some(&2));
        vassert!(!got_a || due_a, "cleanup never hands out an entry whose bucket is not due");
        vassert!(!got_b || due_b, "cleanup never hands out an entry whose bucket is not due (second entry)");
        vassert!(!due_a || got_a, "a due bucket is handed out by the next cleanup pass, however late the pass is");
        vassert!(!due_b || got_b, "a due bucket is handed out by the next cleanup pass (second entry)");
        vassert!(em_count_key(&em, ka) == if got_a { 0 } else { 1 }, "handed-out entries are un-filed, others stay filed");
        vassert!(em_count_key(&em, kb) == if got_b { 0 } else { 1 }, "handed-out entries are un-filed, others stay filed (second entry)");
        vcover!(due_a && !due_b, "one due, one not");
        vcover!(due_a && due_b && storage_bucket(a) != storage_bucket(b), "two different due buckets");
        vcover!(due_a && storage_bucket(a) < cleanup_bucket(now), "overdue by more than a second (late tick / interval > 1s)");
    }
}

// ------------------------------------------------------------------------------------------------
// Stand-in for `ExpirationMap::try_cleanup` (Kani only), used by the store/cache-level sweep
// harnesses: hands out an ARBITRARY single listing (key, conflict) chosen by the harness - proper
// or stale, due or not - or nothing. That over-approximates whatever the expiry index can contain;
// what the real `try_cleanup` hands out is decided by `c05_em_cleanup_due`.
// ------------------------------------------------------------------------------------------------
#[cfg(kani)]
pub(crate) mod emrec {
    use super::*;
    pub static mut HAND_OUT: bool = false;
    pub static mut KEY: u64 = 0;
    pub static mut CONFLICT: u64 = 0;
    pub static mut CALLS: usize = 0;
    pub fn set(hand_out: bool, key: u64, conflict: u64) {
        unsafe {
            HAND_OUT = hand_out;
            KEY = key;
            CONFLICT = conflict;
            CALLS = 0;
        }
    }
    pub fn try_cleanup<S: BuildHasher + Clone + 'static>(em: &ExpirationMap<S>, _now: Time) -> Result<Option<HashMap<u64, u64, S>>, CacheError> {
        unsafe {
            CALLS += 1;
            // always a map (an emptied bucket is a legal hand-out too): returning None on one path
            // would merge the map's slots with an undefined value and CBMC could no longer see
            // that slots 1 and 2 are empty, which multiplies the iterator unrolling
            let mut m = HashMap::with_hasher(em.hasher());
            if HAND_OUT {
                m.insert(KEY, CONFLICT);
            }
            Ok(Some(m))
        }
    }
}
