//! Bounded array model of `std::vec::Vec`, used ONLY in Kani builds and ONLY in the modules
//! policy.rs, policy/sync.rs, policy/async.rs and ring.rs (where every Vec holds `u64` keys or
//! `PolicyPair`s), mounted as `crate::verif_kvec`.
//!
//! std's Vec internals (RawVec growth, `drain`, `IntoIter`) with symbolic lengths dominate CBMC's
//! cost for `LFUPolicy::add` (DESIGN.md 6/C01 Cost). Contract modelled: a sequence of at most VCAP
//! elements; push appends; index panics out of bounds; `drain(n..)` truncates; iteration in order.
//! More than VCAP elements is `assume(false)`: outside the claim. Native replay uses the real Vec.
#![allow(dead_code)]

pub const VCAP: usize = 6;

#[derive(Clone, Copy)]
pub struct Vec<T> {
    buf: [T; VCAP],
    len: usize,
}

pub struct Drained;

impl<T: Copy + Default> Vec<T> {
    pub fn new() -> Self {
        Self { buf: [T::default(); VCAP], len: 0 }
    }
    /// the requested capacity is only a hint in std too; pushing beyond VCAP is what is cut
    pub fn with_capacity(_n: usize) -> Self {
        Self::new()
    }
    pub fn from_slice(s: &[T]) -> Self {
        let mut v = Self::new();
        let mut i = 0;
        while i < s.len() {
            v.push(s[i]);
            i += 1;
        }
        v
    }
    pub fn push(&mut self, x: T) {
        if self.len >= VCAP {
            kani::assume(false);
        }
        self.buf[self.len] = x;
        self.len += 1;
    }
    pub fn len(&self) -> usize {
        self.len
    }
    pub fn is_empty(&self) -> bool {
        self.len == 0
    }
    pub fn clear(&mut self) {
        self.len = 0;
    }
    pub fn iter(&self) -> core::slice::Iter<'_, T> {
        self.buf[..self.len].iter()
    }
    pub fn as_slice(&self) -> &[T] {
        &self.buf[..self.len]
    }
    /// only the `drain(n..)` form used by the crate: removes the tail
    pub fn drain(&mut self, r: core::ops::RangeFrom<usize>) -> Drained {
        assert!(r.start <= self.len, "drain start out of range");
        self.len = r.start;
        Drained
    }
}

impl<T: Copy + Default> Default for Vec<T> {
    fn default() -> Self {
        Self::new()
    }
}

impl<T> core::fmt::Debug for Vec<T> {
    fn fmt(&self, _f: &mut core::fmt::Formatter<'_>) -> core::fmt::Result {
        Ok(())
    }
}

impl<T> core::ops::Index<usize> for Vec<T> {
    type Output = T;
    fn index(&self, i: usize) -> &T {
        assert!(i < self.len, "index out of bounds");
        &self.buf[i]
    }
}
impl<T> core::ops::IndexMut<usize> for Vec<T> {
    fn index_mut(&mut self, i: usize) -> &mut T {
        assert!(i < self.len, "index out of bounds");
        &mut self.buf[i]
    }
}

pub struct IntoIter<T> {
    buf: [T; VCAP],
    len: usize,
    pos: usize,
}
impl<T: Copy> Iterator for IntoIter<T> {
    type Item = T;
    fn next(&mut self) -> Option<T> {
        // the position advances unconditionally so that it stays a concrete number for CBMC
        // (a position that depends on the symbolic length makes every later call re-explore
        // the earlier elements)
        let i = self.pos;
        if i >= VCAP {
            return None;
        }
        self.pos += 1;
        if i < self.len {
            Some(self.buf[i])
        } else {
            None
        }
    }
}
impl<T: Copy> IntoIterator for Vec<T> {
    type Item = T;
    type IntoIter = IntoIter<T>;
    fn into_iter(self) -> IntoIter<T> {
        IntoIter { buf: self.buf, len: self.len, pos: 0 }
    }
}
impl<'a, T> IntoIterator for &'a Vec<T> {
    type Item = &'a T;
    type IntoIter = core::slice::Iter<'a, T>;
    fn into_iter(self) -> core::slice::Iter<'a, T> {
        self.buf[..self.len].iter()
    }
}

impl<T: Copy + Default> core::iter::FromIterator<T> for Vec<T> {
    fn from_iter<I: IntoIterator<Item = T>>(iter: I) -> Self {
        let mut v = Self::new();
        for x in iter {
            v.push(x);
        }
        v
    }
}
