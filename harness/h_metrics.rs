//! C17: the real striped-atomics metrics implementation. Child of `crate::metrics`.
#![allow(dead_code, unused_imports)]
use super::*;
use crate::verif_nd::{self as nd, harness, vassert, vcover};

#[cfg(kani)]
use crate::verif_env::stubs;

fn any_type() -> MetricType {
    METRIC_TYPES_ARRAY[nd::any_usize_in(0, NUMS_OF_METRIC_TYPE - 1)]
}

harness! {
    [kani::unwind(12),
     kani::stub(std::sync::Arc::drop_slow, stubs::arc_drop_slow)]
    fn c17_metrics_stripe_index() {
        // the stripe a counter update lands on is always inside the 256-slot array, for every hash
        let h = nd::any_u64();
        let idx = ((h % 25) * 10) as usize;
        vassert!(idx < SIZE_FOR_EACH_TYPE, "stripe index is within the per-type array for every 64-bit hash");
        vcover!(idx == 240, "last used stripe");
    }
}

/// A `MetricsInner` with only `n` of the 256 stripes per type would not be the real type, so the
/// real constructor is used; the harness then touches two counter types.
fn metrics_inner_ops() {
    let m = MetricsInner::new();
    let t = any_type();
    let u = any_type();
    let h = nd::any_u64();
    let g = nd::any_u64();
    let d1 = nd::any_u64();
    let d2 = nd::any_u64();
    nd::assume(d1 < (1 << 62) && d2 < (1 << 62));
    vassert!(m.get(&t) == 0 && m.get(&u) == 0, "a fresh metrics object reads zero");
    m.add(t, h, d1);
    m.add(u, g, d2);
    let exp_t = if t == u { d1 + d2 } else { d1 };
    let exp_u = if t == u { d1 + d2 } else { d2 };
    vassert!(m.get(&t) == exp_t && m.get(&u) == exp_u, "add(t, hash, delta) raises exactly counter t by delta, whatever stripe the hash selects");
    if t == MetricType::Hit && u == MetricType::Miss {
        let r = m.ratio();
        if d1 == 0 && d2 == 0 {
            vassert!(r == 0.0, "ratio() is 0 without lookups");
        } else {
            vassert!(r == (d1 as f64) / ((d1 + d2) as f64), "ratio() is hits / (hits + misses)");
        }
    }
    m.clear();
    vassert!(m.get(&t) == 0 && m.get(&u) == 0, "clear() restarts every counter from zero");
    vcover!(t != u, "two different counters");
    vcover!(t == u && h % 25 != g % 25, "same counter, different stripes");
    vcover!(t == MetricType::Hit && u == MetricType::Miss && d1 > 0, "ratio with hits");
    std::mem::forget(m);
}

harness! {
    [kani::unwind(258),
     kani::stub(std::sync::Arc::drop_slow, stubs::arc_drop_slow)]
    fn c17_metrics_inner() {
        metrics_inner_ops();
    }
}

/// The real `MetricsInner` over a map that holds ONE counter type (built by struct literal: the
/// constructor's 11 x 256 atomics are what made `c17_metrics_inner` time out). `add`, `get` and
/// `clear` are the real functions; all 256 slots of the type are real atomics.
fn one_type_metrics(t: MetricType) -> MetricsInner {
    #[allow(clippy::declare_interior_mutable_const)]
    const Z: AtomicU64 = AtomicU64::new(0);
    let mut map: BTreeMap<MetricType, [AtomicU64; SIZE_FOR_EACH_TYPE]> = BTreeMap::new();
    map.insert(t, [Z; SIZE_FOR_EACH_TYPE]);
    MetricsInner { all: Arc::new(map), life: Histogram::new(vec![2.0]) }
}

harness! {
    [kani::unwind(258),
     kani::stub(std::sync::Arc::drop_slow, stubs::arc_drop_slow)]
    fn c11_metrics_clear_stripes() {
        // whatever stripes two updates of a counter landed on, clear() brings the counter back to
        // zero (C11: "metrics restart from zero"; C17: clear resets every counter)
        let t = MetricType::Hit;
        let m = one_type_metrics(t);
        let h = nd::any_u64();
        let g = nd::any_u64();
        let d1 = nd::any_u64();
        let d2 = nd::any_u64();
        nd::assume(d1 < (1 << 62) && d2 < (1 << 62));
        m.add(t, h, d1);
        m.add(t, g, d2);
        vassert!(m.get(&t) == d1 + d2, "add(t, hash, delta) raises counter t by delta, whatever stripe the hash selects");
        m.clear();
        vassert!(m.get(&t) == 0, "clear() restarts the counter from zero on every stripe");
        vcover!(h % 25 == 24 && d1 > 0, "an update on the last stripe (slot 240)");
        vcover!(h % 25 != g % 25 && d1 > 0 && d2 > 0, "two different stripes");
        std::mem::forget(m);
    }
}
