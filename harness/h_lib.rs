//! C18: key hashing. Child of the crate root.
#![allow(dead_code, unused_imports)]
use super::*;
use crate::verif_nd::{self as nd, harness, vassert, vcover};

macro_rules! transparent_harness {
    ($name:ident, $t:ty, $any:expr, $min:expr, $max:expr) => {
        harness! {
            []
            fn $name() {
                let a: $t = $any;
                let b: $t = $any;
                let kb = TransparentKeyBuilder::<$t>::default();
                let (ia, ca) = kb.build_key(&a);
                vassert!(ia == a as u64, "TransparentKeyBuilder maps an integer key to itself");
                vassert!(ia == a.to_u64(), "index hash equals TransparentKey::to_u64");
                vassert!(ca == 0 && kb.hash_conflict(&a) == 0, "transparent keys have conflict hash 0");
                vassert!(kb.hash_index(&a) == ia && kb.build_key(&a) == (ia, ca), "hashing is deterministic");
                let (ib, _) = kb.build_key(&b);
                vassert!((a == b) == (ia == ib), "distinct integer keys never collide");
                vcover!(a == $min, "minimum value");
                vcover!(a == $max, "maximum value");
                vcover!(a != b, "two distinct keys");
            }
        }
    };
}

transparent_harness!(c18_transparent_u8, u8, nd::any_u8(), u8::MIN, u8::MAX);
transparent_harness!(c18_transparent_u16, u16, nd::any_u16(), u16::MIN, u16::MAX);
transparent_harness!(c18_transparent_u32, u32, nd::any_u32(), u32::MIN, u32::MAX);
transparent_harness!(c18_transparent_u64, u64, nd::any_u64(), u64::MIN, u64::MAX);
transparent_harness!(c18_transparent_usize, usize, nd::any_usize(), usize::MIN, usize::MAX);
transparent_harness!(c18_transparent_i8, i8, nd::any_u8() as i8, i8::MIN, i8::MAX);
transparent_harness!(c18_transparent_i16, i16, nd::any_u16() as i16, i16::MIN, i16::MAX);
transparent_harness!(c18_transparent_i32, i32, nd::any_u32() as i32, i32::MIN, i32::MAX);
transparent_harness!(c18_transparent_i64, i64, nd::any_i64(), i64::MIN, i64::MAX);
transparent_harness!(c18_transparent_isize, isize, nd::any_i64() as isize, isize::MIN, isize::MAX);

harness! {
    []
    fn c18_transparent_bool() {
        let a = nd::any_bool();
        let b = nd::any_bool();
        let kb = TransparentKeyBuilder::<bool>::default();
        let (ia, ca) = kb.build_key(&a);
        vassert!(ia == a as u64 && ia == a.to_u64() && ca == 0, "TransparentKeyBuilder maps a bool key to 0/1");
        let (ib, _) = kb.build_key(&b);
        vassert!((a == b) == (ia == ib), "distinct bool keys never collide");
        vcover!(a && !b, "true and false");
    }
}

/// `String` and `&str` spellings of the same key hash identically under the default key builder
/// (sea hash index, xxh64 conflict with an arbitrary seed).
fn default_str_string<const N: usize>() {
    let seed = nd::any_u64();
    let kb: DefaultKeyBuilder<String> = DefaultKeyBuilder {
        xx: xxhash_rust::xxh64::Xxh64Builder::new(seed),
        sea: Default::default(),
        _marker: Default::default(),
    };
    let len = nd::any_usize_in(0, N);
    let mut v = Vec::with_capacity(N);
    let mut i = 0;
    while i < N {
        if i < len {
            let b = nd::any_u8();
            nd::assume(b < 0x80);
            v.push(b);
        }
        i += 1;
    }
    let s: String = unsafe { String::from_utf8_unchecked(v) };
    let owned = kb.build_key(&s);
    let borrowed = kb.build_key(s.as_str());
    vassert!(owned == borrowed, "a key hashes to the same (index, conflict) pair however it is borrowed");
    vassert!(kb.build_key(&s) == owned, "hashing is deterministic");
    vcover!(len == N, "longest string");
    vcover!(len == 0, "empty string");
}

harness! {
    [kani::unwind(12)]
    fn c18_default_str_string_4() {
        default_str_string::<4>();
    }
}
