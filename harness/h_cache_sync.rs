//! Cache-level harnesses on the "parked cache" (DESIGN 3.1): real ShardedMap, real LFUPolicy,
//! real RingStripe, real Cache and CacheProcessor wired exactly as `finalize()` wires them, with
//! no thread spawned; the harness plays the processor loop by calling the real
//! `handle_insert_event / handle_clear_event / handle_cleanup_event`.
//! Child of `crate::cache::sync`.
#![allow(dead_code, unused_imports)]
use super::*;
use crate::policy::verif_harness::psync::{mk_policy, policy_estimate, policy_len, policy_sum, policy_used};
use crate::policy::verif_harness::PolicyProcessor;
use crate::policy::verif_harness::{any_slfu, any_tinylfu, slfu_from, COST_MAX};
use crate::policy::{SampledLFU, TinyLFU};
use crate::store::verif_harness::{any_ent, em_ok, raw, store_from, GEnt, NdValidator, Store};
use crate::ttl::verif_harness::{self as th, any_duration, time_at};
use crate::verif_env::rec::{CollidingKb, RecCb, TabCoster, NT};
use crate::verif_env::{chan, clock, hm_from, mrec, HS};
use crate::verif_nd::{self as nd, harness, vassert, vcover};
use crate::TransparentKeyBuilder;
use std::sync::atomic::AtomicU8;

#[cfg(kani)]
use crate::verif_env::stubs;

pub(crate) type PCache<KB> = Cache<u64, u64, KB, TabCoster, NdValidator, RecCb, HS>;
pub(crate) type PProc = CacheProcessor<u64, NdValidator, RecCb, HS>;

pub(crate) struct Parked<KB> {
    pub cache: PCache<KB>,
    pub proc_: PProc,
    pub worker: PolicyProcessor<HS>,
    pub cb: Arc<RecCb>,
    pub store: Arc<Store>,
    pub policy: Arc<LFUPolicy<HS>>,
    pub metrics: Arc<Metrics>,
}

#[derive(Copy, Clone)]
pub(crate) struct Cfg {
    pub ignore_internal_cost: bool,
    pub metrics: bool,
    pub buffer_items: usize,
    pub insert_buf: usize,
    pub coster: [i64; NT],
}

pub(crate) fn any_cfg() -> Cfg {
    Cfg {
        ignore_internal_cost: nd::any_bool(),
        metrics: false,
        buffer_items: 64,
        insert_buf: 4,
        coster: [0; NT],
    }
}

/// Wire a cache around the given store / policy state exactly as `CacheBuilder::finalize` does,
/// minus the two `spawn()` calls.
pub(crate) fn park<KB: KeyBuilder<Key = u64>>(kb: KB, store: Store, admit: TinyLFU, costs: SampledLFU<HS>, cfg: Cfg) -> Parked<KB> {
    chan::reset(cfg.insert_buf);
    let (buf_tx, buf_rx) = bounded(cfg.insert_buf);
    let (stop_tx, stop_rx) = stop_channel();
    let (clear_tx, clear_rx) = unbounded();
    let store = Arc::new(store);
    let metrics = Arc::new(mrec::make(cfg.metrics));
    let (policy, worker) = mk_policy(admit, costs, metrics.clone());
    let policy = Arc::new(policy);
    let coster = Arc::new(TabCoster { tab: cfg.coster, calls: AtomicU8::new(0) });
    let callback = Arc::new(RecCb::new());
    let proc_ = CacheProcessor::new(
        100000,
        cfg.ignore_internal_cost,
        Duration::from_millis(500),
        store.clone(),
        policy.clone(),
        buf_rx,
        stop_rx,
        clear_rx,
        metrics.clone(),
        callback.clone(),
    );
    let get_buf = RingStripe::new(policy.clone(), cfg.buffer_items);
    let cache = Cache {
        store: store.clone(),
        policy: policy.clone(),
        get_buf: Arc::new(get_buf),
        insert_buf_tx: buf_tx,
        callback: callback.clone(),
        key_to_hash: Arc::new(kb),
        stop_tx,
        clear_tx,
        is_closed: Arc::new(AtomicBool::new(false)),
        coster,
        metrics: metrics.clone(),
        _marker: Default::default(),
    };
    Parked { cache, proc_, worker, cb: callback, store, policy, metrics }
}

impl<KB: KeyBuilder<Key = u64>> Parked<KB> {
    /// the processor takes the next queued item, if any (one iteration of its select! loop)
    pub fn process_one(&mut self) -> bool {
        match self.proc_.insert_buf_rx.try_recv() {
            Ok(item) => {
                let r = self.proc_.handle_insert_event(Ok(item));
                vassert!(r.is_ok(), "the processor handles a queued item without error");
                true
            }
            Err(_) => false,
        }
    }
    /// the processor handles a pending clear signal, if any
    pub fn process_clear(&mut self) -> bool {
        match self.proc_.clear_rx.try_recv() {
            Ok(()) => {
                let r = self.proc_.handle_clear_event();
                vassert!(r.is_ok(), "the processor handles the clear signal without error");
                true
            }
            Err(_) => false,
        }
    }
    /// run the processor until nothing is pending (quiescence)
    pub fn drain(&mut self) {
        let mut i = 0;
        while i < 5 {
            let a = self.process_clear();
            let b = self.process_one();
            if !a && !b {
                return;
            }
            i += 1;
        }
        vassert!(self.proc_.insert_buf_rx.try_recv().is_err(), "drain bound large enough");
    }
    /// one cleanup tick
    pub fn tick(&mut self) {
        let r = self.proc_.handle_cleanup_event(Ok(std::time::Instant::now()));
        vassert!(r.is_ok(), "the processor handles a cleanup tick without error");
    }
    /// enqueue an item the way the success arm of try_insert_in's select! does
    pub fn enqueue(&self, item: Item<u64>) -> bool {
        self.cache.insert_buf_tx.try_send(item).is_ok()
    }
    /// I-SP for key k: resident iff charged
    pub fn sp_ok(&self, k: u64) -> bool {
        raw(&self.store, k).is_some() == self.policy.contains(&k)
    }
    pub fn item_size(&self) -> i64 {
        self.store.item_size() as i64
    }
}

/// Arbitrary quiescent cache state with up to two residents (values tagged 0 and 1) that
/// satisfies I-SP (resident <=> charged), I-P (used == sum) and I-EM (expiry index), arbitrary
/// popularity state. `ttl`: 0 no TTLs, 2 mixed.
pub(crate) fn any_parked<KB: KeyBuilder<Key = u64>>(kb: KB, ttl: u8, cfg: Cfg, forced: Option<bool>) -> (Parked<KB>, Option<GEnt>, Option<GEnt>, [Option<(u64, i64)>; 3]) {
    let now = clock::set_nd(1000, th::SECS_MAX);
    let mut a = if nd::any_bool() { Some(any_ent(now, ttl, 4)) } else { None };
    let mut b = if nd::any_bool() { Some(any_ent(now, ttl, 4)) } else { None };
    if let Some(x) = a.as_mut() {
        x.val = 0;
    }
    if let Some(y) = b.as_mut() {
        y.val = 1;
    }
    if let (Some(x), Some(y)) = (a, b) {
        nd::assume(x.key != y.key);
    }
    let store = store_from(a, b, None, NdValidator::new(forced));
    let mut ents: [Option<(u64, i64)>; 3] = [None, None, None];
    let mut sum = 0i64;
    if let Some(x) = a {
        let c = nd::any_i64_in(0, COST_MAX);
        ents[0] = Some((x.key, c));
        sum += c;
    }
    if let Some(y) = b {
        let c = nd::any_i64_in(0, COST_MAX);
        ents[1] = Some((y.key, c));
        sum += c;
    }
    let _ = sum;
    let costs = slfu_from(ents, nd::any_i64_in(-COST_MAX, COST_MAX));
    let admit = any_tinylfu(1, 6);
    (park(kb, store, admit, costs, cfg), a, b, ents)
}

#[cfg(kani)]
fn instant_now_stub() -> std::time::Instant {
    unsafe { std::mem::zeroed() }
}

/// stub set of every cache-level harness (each stub is listed in the evidence)
macro_rules! cache_harness {
    ([$($k:meta),* $(,)?] fn $name:ident() $body:block) => {
        harness! {
            [kani::stub(std::sync::Arc::drop_slow, stubs::arc_drop_slow),
             kani::stub(parking_lot::RawMutex::lock_slow, stubs::mutex_lock_slow),
             kani::stub(parking_lot::RawMutex::unlock_slow, stubs::mutex_unlock_slow),
             kani::stub(parking_lot::RawRwLock::lock_shared_slow, stubs::rw_lock_shared_slow),
             kani::stub(parking_lot::RawRwLock::lock_exclusive_slow, stubs::rw_lock_exclusive_slow),
             kani::stub(parking_lot::RawRwLock::unlock_shared_slow, stubs::rw_unlock_shared_slow),
             kani::stub(parking_lot::RawRwLock::unlock_exclusive_slow, stubs::rw_unlock_exclusive_slow),
             kani::stub(crate::metrics::Metrics::add, mrec::add),
             kani::stub(crate::metrics::Metrics::is_op, mrec::is_op),
             kani::stub(crate::metrics::Metrics::clear, mrec::clear),
             kani::stub(crate::metrics::Metrics::track_eviction, mrec::track_eviction),
             kani::stub(crossbeam_channel::Sender::try_send, chan::try_send),
             kani::stub(crossbeam_channel::Sender::send, chan::send),
             kani::stub(crossbeam_channel::Receiver::try_recv, chan::try_recv),
             kani::stub(crossbeam_channel::internal::try_select, chan::try_select),
             kani::stub(std::time::Instant::now, instant_now_stub),
             kani::stub(std::fmt::format, stubs::fmt_format),
             kani::stub(crate::policy::sync::LFUPolicy::add, crate::policy::verif_harness::psync::add_contract),
             $($k),*]
            fn $name() $body
        }
    };
}

// ------------------------------------------------------------------------------------------------
// One processor event from an arbitrary quiescent state: C06 (I-SP), C08 (callback accounting),
// C16 (charge), C01 (I-P at cache level)
// ------------------------------------------------------------------------------------------------

pub(crate) const EV_NEW: u8 = 0;
pub(crate) const EV_UPDATE: u8 = 1;
pub(crate) const EV_DELETE: u8 = 2;
pub(crate) const EV_TICK: u8 = 3;

fn proc_step(ev: u8) {
    let cfg = any_cfg();
    // residents carry TTLs only in the tick harness (the expiry index is decided at store level:
    // c04_em_store_*, c05_em_*); keeps the symbolic state of the other events small
    let ttl_class = if ev == EV_TICK { 2 } else { 0 };
    let (mut p, a, b, ents) = any_parked(TransparentKeyBuilder::<u64>::default(), ttl_class, cfg, Some(true));
    let k = nd::any_u64();
    let resident_before = raw(&p.store, k);
    let charge_before = p.policy.cost(&k);
    let isz = if cfg.ignore_internal_cost { 0 } else { p.item_size() };
    if ev == EV_NEW {
        let cost = nd::any_i64_in(0, COST_MAX);
        let conflict = 0u64; // TransparentKeyBuilder
        let d = any_duration(4);
        let exp = time_at(clock::get(), d);
        let item = Item::New { key: k, conflict, cost, value: 2, expiration: exp };
        let r = p.proc_.handle_insert_event(Ok(item));
        vassert!(r.is_ok(), "handling a New item does not fail");
        let now_res = raw(&p.store, k);
        if resident_before.is_some() {
            // a New item for a resident key only arises from a vetoed / colliding insert
            vassert!(now_res == resident_before, "a New item for a resident key leaves the resident entry untouched");
            vassert!(p.cb.rejects(2) == 1 && p.cb.total(2) == 1, "the refused value is handed to on_reject exactly once");
        } else if let Some(e) = now_res {
            vassert!(e.val == 2 && e.exp == exp, "an admitted item is stored with its value and deadline");
            vassert!(p.policy.cost(&k) == cost + isz, "C16: the charge is the given cost plus the internal overhead unless ignored");
            vassert!(p.cb.total(2) == 0, "an admitted value is not handed to any callback");
        } else {
            vassert!(p.cb.rejects(2) == 1 && p.cb.total(2) == 1, "a rejected value is handed to on_reject exactly once");
            vassert!(p.cb.cost_of(2) == cost + isz, "C16: the cost reported to on_reject is the charged cost");
            vassert!(!p.policy.contains(&k), "a rejected key is not charged");
        }
        // victims: a resident that disappeared was evicted through on_evict with its charge
        for (e, t) in [(a, 0u64), (b, 1u64)] {
            if let Some(e) = e {
                if e.key != k {
                    let still = raw(&p.store, e.key).is_some();
                    vassert!(still == (p.cb.total(t) == 0), "C08: a resident value is either still resident or was handed to exactly one callback");
                    if !still {
                        vassert!(p.cb.evicts(t) == 1, "an evicted value goes to on_evict exactly once");
                        let ch = if t == 0 { ents[0].unwrap().1 } else { ents[1].unwrap().1 };
                        vassert!(p.cb.cost_of(t) == ch && p.cb.index_of(t) == e.key, "C16: the cost reported to on_evict is the victim's charged cost");
                    }
                }
            }
        }
        vcover!(resident_before.is_none() && now_res.is_some() && p.cb.all() == 0, "[new] admitted without victims");
        vcover!(resident_before.is_none() && now_res.is_some() && p.cb.all() == 2, "[new] admitted with two victims");
        vcover!(resident_before.is_none() && now_res.is_none(), "[new] rejected");
        vcover!(resident_before.is_some(), "[new] New for a resident key");
    } else if ev == EV_UPDATE {
        let cost = nd::any_i64_in(0, COST_MAX);
        let ext = nd::any_i64_in(0, COST_MAX);
        let item = Item::Update { key: k, cost, external_cost: ext };
        let r = p.proc_.handle_insert_event(Ok(item));
        vassert!(r.is_ok(), "handling an Update item does not fail");
        if resident_before.is_some() {
            vassert!(p.policy.cost(&k) == cost + ext + isz, "C16: an update re-charges the entry with the new cost plus internal overhead");
        } else {
            vassert!(!p.policy.contains(&k), "an Update for an absent key charges nothing");
        }
        vassert!(raw(&p.store, k) == resident_before, "an Update item does not touch the store");
        vassert!(p.cb.all() == 0, "an Update item triggers no callback");
        vcover!(resident_before.is_some(), "[update] update of a resident");
        vcover!(resident_before.is_none(), "[update] update of an absent key");
    } else if ev == EV_DELETE {
        let conflict = 0u64;
        let item = Item::Delete { key: k, conflict };
        let r = p.proc_.handle_insert_event(Ok(item));
        vassert!(r.is_ok(), "handling a Delete item does not fail");
        vassert!(raw(&p.store, k).is_none() && !p.policy.contains(&k), "after a Delete the key is neither resident nor charged");
        if let Some(e) = resident_before {
            vassert!(p.cb.exits(e.val) == 1 && p.cb.all() == 1, "the removed value is handed to on_exit exactly once");
        } else {
            vassert!(p.cb.all() == 0, "deleting an absent key triggers no callback");
        }
        vcover!(resident_before.is_some(), "[delete] delete of a resident");
    } else {
        // cleanup tick at an arbitrary later instant
        let now = clock::advance_nd(8);
        p.tick();
        for (e, t) in [(a, 0u64), (b, 1u64)] {
            if let Some(e) = e {
                let still = raw(&p.store, e.key).is_some();
                let elapsed = !e.exp.is_zero() && now >= th::deadline(&e.exp);
                vassert!(still || elapsed, "C05: cleanup never removes an entry whose TTL has not elapsed (or that has none)");
                vassert!(still == (p.cb.total(t) == 0), "C08: resident or handed to exactly one callback");
                if !still {
                    vassert!(p.cb.evicts(t) == 1, "an expired value goes to on_evict exactly once");
                    let ch = if t == 0 { ents[0].unwrap().1 } else { ents[1].unwrap().1 };
                    vassert!(p.cb.cost_of(t) == ch, "C16: the cost reported for an expired entry is its charged cost");
                }
                if !e.exp.is_zero() && now >= th::deadline(&e.exp) + Duration::from_secs(1) {
                    vassert!(!still, "C05: an entry whose TTL elapsed more than one bucket width ago is reclaimed by the next cleanup pass");
                }
            }
        }
        vcover!(p.cb.all() == 2, "[tick] two entries reclaimed by one tick");
        vcover!(p.cb.all() == 0 && a.is_some(), "[tick] nothing reclaimed");
    }
    // invariants after the event
    vassert!(p.sp_ok(k), "I-SP: the addressed key is resident iff it is charged");
    let mut n = if raw(&p.store, k).is_some() { 1 } else { 0 };
    for e in [a, b] {
        if let Some(e) = e {
            if e.key != k {
                vassert!(p.sp_ok(e.key), "I-SP: every other key is resident iff it is charged");
                vassert!(em_ok(&p.store, e.key), "I-EM: every other key stays filed under its own deadline");
                if raw(&p.store, e.key).is_some() {
                    n += 1;
                }
            }
        }
    }
    vassert!(em_ok(&p.store, k), "I-EM: the addressed key is filed exactly under its deadline");
    vassert!(p.cache.len() == n && policy_len(&p.policy) == n, "len() equals the number of charged entries");
    let (sum, _cnt, nonneg) = policy_sum(&p.policy);
    vassert!(policy_used(&p.policy) == sum && nonneg, "I-P: the charged total equals the sum of the per-entry charges");
    vassert!(p.cb.bad.load(Ordering::SeqCst) == 0, "no callback received an empty or foreign value");
    let _ = charge_before;
    // dropping channels / Arcs / maps is irrelevant to every property and expensive for CBMC
    std::mem::forget(p);
}

cache_harness! {
    [kani::unwind(6)]
    fn c06_proc_new() {
        proc_step(EV_NEW);
    }
}
cache_harness! {
    [kani::unwind(6)]
    fn c06_proc_update() {
        proc_step(EV_UPDATE);
    }
}
cache_harness! {
    [kani::unwind(6)]
    fn c06_proc_delete() {
        proc_step(EV_DELETE);
    }
}
cache_harness! {
    [kani::unwind(6)]
    fn c06_proc_tick() {
        proc_step(EV_TICK);
    }
}

cache_harness! {
    [kani::unwind(6)]
    fn probe_fixture_only() {
        let cfg = any_cfg();
        let (p, a, b, _ents) = any_parked(TransparentKeyBuilder::<u64>::default(), 0, cfg, Some(true));
        vassert!(p.cache.len() <= 2, "fixture has at most two residents");
        vcover!(a.is_some() && b.is_some(), "two residents");
        std::mem::forget(p);
    }
}

cache_harness! {
    [kani::unwind(6)]
    fn probe_update_min() {
        let cfg = any_cfg();
        let (mut p, a, b, _ents) = any_parked(TransparentKeyBuilder::<u64>::default(), 0, cfg, Some(true));
        let k = nd::any_u64();
        let cost = nd::any_i64_in(0, COST_MAX);
        let before = p.policy.contains(&k);
        let item = Item::Update { key: k, cost, external_cost: 0 };
        let r = p.proc_.handle_insert_event(Ok(item));
        vassert!(r.is_ok(), "handling an Update item does not fail");
        vassert!(p.policy.contains(&k) == before, "update does not change residency");
        vcover!(before, "resident updated");
        std::mem::forget(p);
    }
}
