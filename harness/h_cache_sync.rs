//! Cache-level harnesses on the "parked cache" (DESIGN 3.1): real ShardedMap, real LFUPolicy,
//! real RingStripe, real Cache and CacheProcessor wired exactly as `finalize()` wires them, with
//! no thread spawned; the harness plays the processor loop by calling the real
//! `handle_insert_event / handle_clear_event / handle_cleanup_event`.
//! Child of `crate::cache::sync`.
#![allow(dead_code, unused_imports)]
use super::*;
use crate::policy::verif_harness::psync::{mk_policy, policy_estimate, policy_len, policy_sum, policy_used};
use crate::policy::verif_harness::PolicyProcessor;
use crate::policy::verif_harness::{any_slfu, any_tinylfu, slfu_from, COST_MAX};
use crate::policy::{SampledLFU, TinyLFU};
use crate::store::verif_harness::{any_ent, em_ok, raw, store_from, validator_last, GEnt, NdValidator, Store};
use crate::ttl::verif_harness::{self as th, any_duration, time_at};
use crate::verif_env::rec::{CollidingKb, RecCb, TabCoster, NT};
use crate::verif_env::{chan, clock, hm_from, mrec, HS};
use crate::verif_nd::{self as nd, harness, vassert, vcover};
use crate::TransparentKeyBuilder;
use std::sync::atomic::AtomicU8;

#[cfg(kani)]
use crate::verif_env::stubs;

pub(crate) type PCache<KB> = Cache<u64, u64, KB, TabCoster, NdValidator, RecCb, HS>;
pub(crate) type PProc = CacheProcessor<u64, NdValidator, RecCb, HS>;

pub(crate) struct Parked<KB> {
    pub cache: PCache<KB>,
    pub proc_: PProc,
    pub worker: PolicyProcessor<HS>,
    pub cb: Arc<RecCb>,
    pub store: Arc<Store>,
    pub policy: Arc<LFUPolicy<HS>>,
    pub metrics: Arc<Metrics>,
}

#[derive(Copy, Clone)]
pub(crate) struct Cfg {
    pub ignore_internal_cost: bool,
    pub metrics: bool,
    pub buffer_items: usize,
    pub insert_buf: usize,
    pub coster: [i64; NT],
}

pub(crate) fn any_cfg() -> Cfg {
    Cfg {
        ignore_internal_cost: nd::any_bool(),
        metrics: false,
        buffer_items: 64,
        insert_buf: 4,
        coster: [0; NT],
    }
}

/// Wire a cache around the given store / policy state exactly as `CacheBuilder::finalize` does,
/// minus the two `spawn()` calls.
pub(crate) fn park<KB: KeyBuilder<Key = u64>>(kb: KB, store: Store, admit: TinyLFU, costs: SampledLFU<HS>, cfg: Cfg) -> Parked<KB> {
    chan::reset(cfg.insert_buf);
    let (buf_tx, buf_rx) = bounded(cfg.insert_buf);
    let (stop_tx, stop_rx) = stop_channel();
    let (clear_tx, clear_rx) = unbounded();
    let store = Arc::new(store);
    let metrics = Arc::new(mrec::make(cfg.metrics));
    let (policy, worker) = mk_policy(admit, costs, metrics.clone());
    let policy = Arc::new(policy);
    let coster = Arc::new(TabCoster { tab: cfg.coster, calls: AtomicU8::new(0) });
    let callback = Arc::new(RecCb::new());
    let proc_ = CacheProcessor::new(
        100000,
        cfg.ignore_internal_cost,
        Duration::from_millis(500),
        store.clone(),
        policy.clone(),
        buf_rx,
        stop_rx,
        clear_rx,
        metrics.clone(),
        callback.clone(),
    );
    let get_buf = RingStripe::new(policy.clone(), cfg.buffer_items);
    let cache = Cache {
        store: store.clone(),
        policy: policy.clone(),
        get_buf: Arc::new(get_buf),
        insert_buf_tx: buf_tx,
        callback: callback.clone(),
        key_to_hash: Arc::new(kb),
        stop_tx,
        clear_tx,
        is_closed: Arc::new(AtomicBool::new(false)),
        coster,
        metrics: metrics.clone(),
        _marker: Default::default(),
    };
    Parked { cache, proc_, worker, cb: callback, store, policy, metrics }
}

pub(crate) const M_NEW: u8 = 1;
pub(crate) const M_UPDATE: u8 = 2;
pub(crate) const M_DELETE: u8 = 4;
pub(crate) const M_WAIT: u8 = 8;
pub(crate) const M_ALL: u8 = 15;

impl<KB: KeyBuilder<Key = u64>> Parked<KB> {
    /// the processor takes the next queued item, if any (one iteration of its select! loop)
    pub fn process_one(&mut self) -> bool {
        self.process_one_mask(M_ALL)
    }
    /// as `process_one`, for harnesses that know which kinds of item can be queued. After its
    /// round trip through the FIFO (heap) CBMC no longer knows the item's variant and would explore
    /// every arm of `handle_item` - including the whole New arm - at every call; the item is
    /// therefore re-built per variant and handed over inside that arm, and kinds outside `mask`
    /// (which the harness never queued) are cut.
    pub fn process_one_mask(&mut self, mask: u8) -> bool {
        match self.proc_.insert_buf_rx.try_recv() {
            Ok(item) => {
                let r = match item {
                    Item::New { key, conflict, cost, value, expiration } => {
                        nd::assume(mask & M_NEW != 0);
                        self.proc_.handle_insert_event(Ok(Item::New { key, conflict, cost, value, expiration }))
                    }
                    Item::Update { key, cost, external_cost } => {
                        nd::assume(mask & M_UPDATE != 0);
                        self.proc_.handle_insert_event(Ok(Item::Update { key, cost, external_cost }))
                    }
                    Item::Delete { key, conflict } => {
                        nd::assume(mask & M_DELETE != 0);
                        self.proc_.handle_insert_event(Ok(Item::Delete { key, conflict }))
                    }
                    Item::Wait(wg) => {
                        nd::assume(mask & M_WAIT != 0);
                        self.proc_.handle_insert_event(Ok(Item::Wait(wg)))
                    }
                };
                vassert!(r.is_ok(), "the processor handles a queued item without error");
                true
            }
            Err(_) => false,
        }
    }
    /// the processor handles a pending clear signal, if any
    pub fn process_clear(&mut self) -> bool {
        match self.proc_.clear_rx.try_recv() {
            Ok(()) => {
                let r = self.proc_.handle_clear_event();
                vassert!(r.is_ok(), "the processor handles the clear signal without error");
                true
            }
            Err(_) => false,
        }
    }
    /// run the processor until nothing is pending (quiescence)
    pub fn drain(&mut self) {
        self.drain_mask(M_ALL)
    }
    pub fn drain_mask(&mut self, mask: u8) {
        let mut i = 0;
        while i < 5 {
            let a = self.process_clear();
            let b = self.process_one_mask(mask);
            if !a && !b {
                return;
            }
            i += 1;
        }
        vassert!(self.proc_.insert_buf_rx.try_recv().is_err(), "drain bound large enough");
    }
    /// one cleanup tick
    pub fn tick(&mut self) {
        let r = self.proc_.handle_cleanup_event(Ok(std::time::Instant::now()));
        vassert!(r.is_ok(), "the processor handles a cleanup tick without error");
    }
    /// enqueue an item the way the success arm of try_insert_in's select! does
    pub fn enqueue(&self, item: Item<u64>) -> bool {
        self.cache.insert_buf_tx.try_send(item).is_ok()
    }
    /// I-SP for key k: resident iff charged
    pub fn sp_ok(&self, k: u64) -> bool {
        raw(&self.store, k).is_some() == self.policy.contains(&k)
    }
    pub fn item_size(&self) -> i64 {
        self.store.item_size() as i64
    }
}

/// Arbitrary quiescent cache state with up to two residents (values tagged 0 and 1) that
/// satisfies I-SP (resident <=> charged), I-P (used == sum) and I-EM (expiry index), arbitrary
/// popularity state. `ttl`: 0 no TTLs, 2 mixed.
pub(crate) fn any_parked_n<KB: KeyBuilder<Key = u64>>(kb: KB, ttl: u8, cfg: Cfg, forced: Option<bool>, n_max: usize) -> (Parked<KB>, Option<GEnt>, Option<GEnt>, [Option<(u64, i64)>; 3]) {
    let now = clock::set_nd(1000, th::SECS_MAX);
    let mut a = if nd::any_bool() { Some(any_ent(now, ttl, 4)) } else { None };
    let mut b = if n_max >= 2 && nd::any_bool() { Some(any_ent(now, ttl, 4)) } else { None };
    if let Some(x) = a.as_mut() {
        x.val = 0;
    }
    if let Some(y) = b.as_mut() {
        y.val = 1;
    }
    if let (Some(x), Some(y)) = (a, b) {
        nd::assume(x.key != y.key);
    }
    let store = store_from(a, b, None, NdValidator::new(forced));
    let mut ents: [Option<(u64, i64)>; 3] = [None, None, None];
    let mut sum = 0i64;
    if let Some(x) = a {
        let c = nd::any_i64_in(0, COST_MAX);
        ents[0] = Some((x.key, c));
        sum += c;
    }
    if let Some(y) = b {
        let c = nd::any_i64_in(0, COST_MAX);
        ents[1] = Some((y.key, c));
        sum += c;
    }
    let _ = sum;
    let costs = slfu_from(ents, nd::any_i64_in(-COST_MAX, COST_MAX));
    let admit = any_tinylfu(1, 6);
    (park(kb, store, admit, costs, cfg), a, b, ents)
}

pub(crate) fn any_parked<KB: KeyBuilder<Key = u64>>(kb: KB, ttl: u8, cfg: Cfg, forced: Option<bool>) -> (Parked<KB>, Option<GEnt>, Option<GEnt>, [Option<(u64, i64)>; 3]) {
    any_parked_n(kb, ttl, cfg, forced, 2)
}

#[cfg(kani)]
fn instant_now_stub() -> std::time::Instant {
    unsafe { std::mem::zeroed() }
}

/// stub set of every cache-level harness (each stub is listed in the evidence)
macro_rules! cache_harness {
    ([$($k:meta),* $(,)?] fn $name:ident() $body:block) => {
        harness! {
            [kani::stub(std::sync::Arc::drop_slow, stubs::arc_drop_slow),
             kani::stub(parking_lot::RawMutex::lock_slow, stubs::mutex_lock_slow),
             kani::stub(parking_lot::RawMutex::unlock_slow, stubs::mutex_unlock_slow),
             kani::stub(parking_lot::RawRwLock::lock_shared_slow, stubs::rw_lock_shared_slow),
             kani::stub(parking_lot::RawRwLock::lock_exclusive_slow, stubs::rw_lock_exclusive_slow),
             kani::stub(parking_lot::RawRwLock::unlock_shared_slow, stubs::rw_unlock_shared_slow),
             kani::stub(parking_lot::RawRwLock::unlock_exclusive_slow, stubs::rw_unlock_exclusive_slow),
             kani::stub(crate::metrics::Metrics::add, mrec::add),
             kani::stub(crate::metrics::Metrics::is_op, mrec::is_op),
             kani::stub(crate::metrics::Metrics::clear, mrec::clear),
             kani::stub(crate::metrics::Metrics::track_eviction, mrec::track_eviction),
             kani::stub(crossbeam_channel::Sender::try_send, chan::try_send),
             kani::stub(crossbeam_channel::Sender::send, chan::send),
             kani::stub(crossbeam_channel::Receiver::try_recv, chan::try_recv),
             kani::stub(crossbeam_channel::Receiver::is_empty, chan::is_empty),
             kani::stub(crossbeam_channel::Sender::is_empty, chan::s_is_empty),
             kani::stub(crossbeam_channel::Sender::len, chan::s_len),
             kani::stub(crossbeam_channel::internal::try_select, chan::try_select),
             kani::stub(crossbeam_channel::SelectedOperation::send, chan::sel_send),
             kani::stub(wg::WaitGroup::wait, stubs::wg_wait),
             kani::stub(parking_lot::Condvar::notify_all_slow, stubs::cv_notify_all_slow),
             kani::stub(std::time::Instant::now, instant_now_stub),
             kani::stub(std::fmt::format, stubs::fmt_format),
             kani::stub(crate::policy::sync::LFUPolicy::add, crate::policy::verif_harness::psync::add_contract),
             kani::stub(crate::policy::sync::LFUPolicy::push, crate::verif_env::pushrec::push),
             $($k),*]
            fn $name() $body
        }
    };
}

// ------------------------------------------------------------------------------------------------
// One processor event from an arbitrary quiescent state. The same body serves several properties;
// `focus` selects which assertions are compiled into the harness (keeps each formula small):
//   F_SP  C06: resident <=> charged, len() == number of charged entries
//   F_CB  C08: every value is resident or was handed to exactly one callback
//   F_COST C16: charge = cost (+ internal overhead), cost reported to callbacks = charge
//   F_P   C01: charged total == sum of per-entry charges
//   F_TTL C05: only expired entries are reclaimed, all overdue ones are
// ------------------------------------------------------------------------------------------------

pub(crate) const EV_NEW: u8 = 0;
pub(crate) const EV_UPDATE: u8 = 1;
pub(crate) const EV_DELETE: u8 = 2;
pub(crate) const EV_TICK: u8 = 3;

pub(crate) const F_SP: u8 = 1;
pub(crate) const F_CB: u8 = 2;
pub(crate) const F_COST: u8 = 4;
pub(crate) const F_P: u8 = 8;
pub(crate) const F_TTL: u8 = 16;

fn proc_step(ev: u8, focus: u8) {
    let cfg = any_cfg();
    // residents carry TTLs only in the tick harness (the expiry index is decided at store level:
    // c04_em_store_*, c05_em_*); keeps the symbolic state of the other events small
    let ttl_class = if ev == EV_TICK { 2 } else { 0 };
    // a New item is the most expensive event (admission + evictions): one resident by default,
    // two with --cfg verif_victims2 (thorough tier)
    let n_max = if (ev == EV_NEW || ev == EV_TICK) && !cfg!(verif_victims2) { 1 } else { 2 };
    let (mut p, a, b, ents) = any_parked_n(TransparentKeyBuilder::<u64>::default(), ttl_class, cfg, Some(true), n_max);
    let k = nd::any_u64();
    let resident_before = raw(&p.store, k);
    let isz = if cfg.ignore_internal_cost { 0 } else { p.item_size() };
    let f_sp = focus & F_SP != 0;
    let f_cb = focus & F_CB != 0;
    let f_cost = focus & F_COST != 0;
    let f_p = focus & F_P != 0;
    let f_ttl = focus & F_TTL != 0;
    if ev == EV_NEW {
        let cost = nd::any_i64_in(0, COST_MAX);
        let d = any_duration(4);
        let exp = time_at(clock::get(), d);
        let item = Item::New { key: k, conflict: 0, cost, value: 2, expiration: exp };
        let r = p.proc_.handle_insert_event(Ok(item));
        vassert!(r.is_ok(), "handling a New item does not fail");
        let now_res = raw(&p.store, k);
        if resident_before.is_some() {
            // a New item for a resident key only arises from a vetoed / colliding insert
            if f_cb {
                vassert!(now_res == resident_before, "a New item for a resident key leaves the resident entry untouched");
                vassert!(p.cb.rejects(2) == 1 && p.cb.total(2) == 1, "the refused value is handed to on_reject exactly once");
            }
        } else if let Some(e) = now_res {
            if f_cb {
                vassert!(e.val == 2 && e.exp == exp, "an admitted item is stored with its value and deadline");
                vassert!(p.cb.total(2) == 0, "an admitted value is not handed to any callback");
            }
            if f_cost {
                vassert!(p.policy.cost(&k) == cost + isz, "the charge is the given cost plus the internal overhead unless ignored");
            }
        } else {
            if f_cb {
                vassert!(p.cb.rejects(2) == 1 && p.cb.total(2) == 1, "a rejected value is handed to on_reject exactly once");
            }
            if f_cost {
                vassert!(p.cb.cost_of(2) == cost + isz, "the cost reported to on_reject is the charged cost");
            }
        }
        // victims: a resident that disappeared was evicted through on_evict with its charge
        for (e, t) in [(a, 0u64), (b, 1u64)] {
            if let Some(e) = e {
                if e.key != k {
                    let still = raw(&p.store, e.key).is_some();
                    if f_cb {
                        vassert!(still == (p.cb.total(t) == 0), "a resident value is either still resident or was handed to exactly one callback");
                        vassert!(still || p.cb.evicts(t) == 1, "an evicted value goes to on_evict exactly once");
                    }
                    if f_cost && !still {
                        let ch = if t == 0 { ents[0].unwrap().1 } else { ents[1].unwrap().1 };
                        vassert!(p.cb.cost_of(t) == ch && p.cb.index_of(t) == e.key, "the cost reported to on_evict is the victim's charged cost");
                    }
                }
            }
        }
        vcover!(resident_before.is_none() && now_res.is_some() && p.cb.all() == 0, "[new] admitted without victims");
        vcover!(resident_before.is_none() && now_res.is_some() && p.cb.all() == 1, "[new] admitted with a victim");
        vcover!(resident_before.is_none() && now_res.is_none(), "[new] rejected");
        vcover!(resident_before.is_some(), "[new] New for a resident key");
    } else if ev == EV_UPDATE {
        let cost = nd::any_i64_in(0, COST_MAX);
        let ext = nd::any_i64_in(0, COST_MAX);
        let item = Item::Update { key: k, cost, external_cost: ext };
        let r = p.proc_.handle_insert_event(Ok(item));
        vassert!(r.is_ok(), "handling an Update item does not fail");
        if f_cost {
            if resident_before.is_some() {
                vassert!(p.policy.cost(&k) == cost + ext + isz, "an update re-charges the entry with the new cost plus internal overhead");
            } else {
                vassert!(!p.policy.contains(&k), "an Update for an absent key charges nothing");
            }
        }
        if f_cb {
            vassert!(raw(&p.store, k) == resident_before, "an Update item does not touch the store");
            vassert!(p.cb.all() == 0, "an Update item triggers no callback");
        }
        vcover!(resident_before.is_some(), "[update] update of a resident");
        vcover!(resident_before.is_none(), "[update] update of an absent key");
    } else if ev == EV_DELETE {
        let item = Item::Delete { key: k, conflict: 0 };
        let r = p.proc_.handle_insert_event(Ok(item));
        vassert!(r.is_ok(), "handling a Delete item does not fail");
        if f_sp {
            vassert!(raw(&p.store, k).is_none() && !p.policy.contains(&k), "after a Delete the key is neither resident nor charged");
        }
        if f_cb {
            if let Some(e) = resident_before {
                vassert!(p.cb.exits(e.val) == 1 && p.cb.all() == 1, "the removed value is handed to on_exit exactly once");
            } else {
                vassert!(p.cb.all() == 0, "deleting an absent key triggers no callback");
            }
        }
        vcover!(resident_before.is_some(), "[delete] delete of a resident");
    } else {
        // cleanup tick at an arbitrary later instant
        let now = clock::advance_nd(8);
        p.tick();
        for (e, t) in [(a, 0u64), (b, 1u64)] {
            if let Some(e) = e {
                let still = raw(&p.store, e.key).is_some();
                if f_ttl {
                    let elapsed = !e.exp.is_zero() && now >= th::deadline(&e.exp);
                    vassert!(still || elapsed, "cleanup never removes an entry whose TTL has not elapsed (or that has none)");
                    if !e.exp.is_zero() && now >= th::deadline(&e.exp) + Duration::from_secs(1) {
                        vassert!(!still, "an entry whose TTL elapsed more than one bucket width ago is reclaimed by the next cleanup pass");
                    }
                }
                if f_cb {
                    vassert!(still == (p.cb.total(t) == 0), "resident or handed to exactly one callback");
                    vassert!(still || p.cb.evicts(t) == 1, "an expired value goes to on_evict exactly once");
                }
                if f_cost && !still {
                    let ch = if t == 0 { ents[0].unwrap().1 } else { ents[1].unwrap().1 };
                    vassert!(p.cb.cost_of(t) == ch, "the cost reported for an expired entry is its charged cost");
                }
            }
        }
        vcover!(p.cb.all() >= 1, "[tick] an entry reclaimed by the tick");
        vcover!(p.cb.all() == 0 && a.is_some(), "[tick] nothing reclaimed");
    }
    // invariants after the event
    if f_sp {
        vassert!(p.sp_ok(k), "I-SP: the addressed key is resident iff it is charged");
        let mut n = if raw(&p.store, k).is_some() { 1 } else { 0 };
        for e in [a, b] {
            if let Some(e) = e {
                if e.key != k {
                    vassert!(p.sp_ok(e.key), "I-SP: every other key is resident iff it is charged");
                    if raw(&p.store, e.key).is_some() {
                        n += 1;
                    }
                }
            }
        }
        vassert!(p.cache.len() == n && policy_len(&p.policy) == n, "len() equals the number of charged entries");
    }
    if f_p {
        let (sum, _cnt, nonneg) = policy_sum(&p.policy);
        vassert!(policy_used(&p.policy) == sum && nonneg, "I-P: the charged total equals the sum of the per-entry charges");
    }
    if f_cb {
        vassert!(p.cb.bad.load(Ordering::SeqCst) == 0, "no callback received an empty or foreign value");
    }
    // dropping channels / Arcs / maps is irrelevant to every property and expensive for CBMC
    std::mem::forget(p);
}

macro_rules! proc_harness {
    ($name:ident, $ev:expr, $focus:expr) => {
        cache_harness! {
            [kani::unwind(6)]
            fn $name() {
                proc_step($ev, $focus);
            }
        }
    };
}

proc_harness!(c06_proc_new, EV_NEW, F_SP);
proc_harness!(c06_proc_update, EV_UPDATE, F_SP);
proc_harness!(c06_proc_delete, EV_DELETE, F_SP);
proc_harness!(c06_proc_tick, EV_TICK, F_SP);
proc_harness!(c08_proc_new, EV_NEW, F_CB);
proc_harness!(c08_proc_delete, EV_DELETE, F_CB);
proc_harness!(c08_proc_tick, EV_TICK, F_CB);
proc_harness!(c16_proc_new, EV_NEW, F_COST);
proc_harness!(c16_proc_update, EV_UPDATE, F_COST);
proc_harness!(c16_proc_tick, EV_TICK, F_COST);
proc_harness!(c01_proc_new, EV_NEW, F_P);
proc_harness!(c05_proc_tick, EV_TICK, F_TTL);

// ------------------------------------------------------------------------------------------------
// One client call from an arbitrary quiescent state (C02, C03, C08, C09, C16)
// ------------------------------------------------------------------------------------------------

pub(crate) const F_VAL: u8 = 32;

/// the client half of insert / insert_with_ttl / insert_if_present: the real `Cache::try_update`
/// (what `try_insert_in` runs before its `select!`), validator answer symbolic
fn client_insert(focus: u8) {
    let mut cfg = any_cfg();
    cfg.coster = [nd::any_i64_in(0, COST_MAX), nd::any_i64_in(0, COST_MAX), nd::any_i64_in(0, COST_MAX), 0];
    let (p, a, b, _ents) = any_parked(TransparentKeyBuilder::<u64>::default(), 2, cfg, None);
    let k = nd::any_u64();
    let before = raw(&p.store, k);
    let charge_before = p.policy.cost(&k);
    let cost = nd::any_i64_in(0, COST_MAX);
    let d = any_duration(4);
    let only_update = nd::any_bool();
    let now = clock::get();
    let r = p.cache.try_update(k, 2, cost, d, only_update);
    vassert!(r.is_ok(), "try_update does not fail");
    let r = r.unwrap();
    let after = raw(&p.store, k);
    let vetoed = validator_last(&p.store) == Some(false);
    let f_val = focus & F_VAL != 0;
    let f_cb = focus & F_CB != 0;
    let f_cost = focus & F_COST != 0;
    let ext = if cost == 0 { cfg.coster[2] } else { 0 };
    if before.is_some() && !vetoed {
        if f_val {
            let e = after.unwrap();
            vassert!(e.val == 2, "an insert of a resident key that is not vetoed replaces the value immediately");
            vassert!(th::created(&e.exp) == now && th::ttl_of(&e.exp) == d, "re-inserting a resident key replaces its deadline (no TTL given: it no longer expires)");
            let g = p.cache.get(&k);
            if d.is_zero() {
                vassert!(g.is_some(), "the replaced entry is visible at once");
            }
            if let Some(g) = g {
                vassert!(*g.value() == 2, "a lookup right after the insert returns the new value");
            }
        }
        if f_cb {
            vassert!(p.cb.exits(before.unwrap().val) == 1 && p.cb.all() == 1, "the replaced value is handed to on_exit exactly once");
        }
        match r {
            Some((idx, Item::Update { key, cost: c2, external_cost })) => {
                if f_cost {
                    vassert!(idx == k && key == k && c2 == cost && external_cost == ext, "the queued Update carries the explicit cost, or the Coster's valuation when the cost is 0");
                }
            }
            _ => {
                vassert!(false, "a replaced resident key queues an Update item");
            }
        }
        vcover!(cost == 0, "[client] coster consulted");
        vcover!(!d.is_zero() && before.unwrap().exp.is_zero(), "[client] entry gains a TTL");
        vcover!(d.is_zero() && !before.unwrap().exp.is_zero(), "[client] entry loses its TTL");
    } else {
        if f_val {
            vassert!(after == before, "a vetoed insert, or an insert of an absent key, leaves the store exactly as it was (value and TTL)");
        }
        if f_cb {
            vassert!(p.cb.all() == 0, "no callback fires for a vetoed insert or an insert of an absent key");
        }
        match r {
            None => {
                vassert!(only_update, "only insert_if_present gives up without queuing");
            }
            Some((idx, Item::New { key, conflict, cost: c2, value, expiration })) => {
                vassert!(!only_update, "insert_if_present never queues a New item: it cannot create an entry");
                if f_cost {
                    vassert!(idx == k && key == k && conflict == 0 && value == 2 && c2 == cost + ext, "the queued New item carries the explicit cost, or the Coster's valuation when the cost is 0");
                    vassert!(th::created(&expiration) == now && th::ttl_of(&expiration) == d, "the queued New item carries the requested TTL");
                }
            }
            _ => {
                vassert!(false, "an insert that did not replace anything queues a New item or nothing");
            }
        }
        vcover!(before.is_some() && vetoed, "[client] vetoed");
        vcover!(before.is_none() && only_update, "[client] insert_if_present on an absent key");
        vcover!(before.is_none() && !only_update, "[client] plain insert of an absent key");
    }
    vassert!(p.policy.cost(&k) == charge_before, "the client call itself never changes the policy's charges");
    for e in [a, b] {
        if let Some(e) = e {
            if e.key != k && f_val {
                vassert!(raw(&p.store, e.key) == Some(e), "entries of other keys are untouched");
            }
        }
    }
    std::mem::forget(r);
    std::mem::forget(p);
}

cache_harness! {
    [kani::unwind(6)]
    fn c02_client_insert() {
        client_insert(F_VAL);
    }
}
cache_harness! {
    [kani::unwind(6)]
    fn c08_client_insert() {
        client_insert(F_CB);
    }
}
cache_harness! {
    [kani::unwind(6)]
    fn c16_client_insert() {
        client_insert(F_COST);
    }
}

/// client remove: the entry is gone at once, its value is handed to on_exit once, a Delete item
/// is queued behind whatever is pending, and processing that Delete un-charges the key without a
/// second callback
fn client_remove(focus: u8) {
    let cfg = any_cfg();
    let (mut p, a, b, _ents) = any_parked(TransparentKeyBuilder::<u64>::default(), 0, cfg, Some(true));
    let k = nd::any_u64();
    let before = raw(&p.store, k);
    let r = p.cache.try_remove(&k);
    vassert!(r.is_ok(), "try_remove does not fail while the buffer has room");
    vassert!(raw(&p.store, k).is_none(), "a removed key is not retrievable from the moment remove returns");
    vassert!(p.cache.get(&k).is_none(), "a lookup after remove returns nothing");
    let f_cb = focus & F_CB != 0;
    let f_sp = focus & F_SP != 0;
    if f_cb {
        match before {
            Some(e) => vassert!(p.cb.exits(e.val) == 1 && p.cb.all() == 1, "the removed value is handed to on_exit exactly once"),
            None => vassert!(p.cb.all() == 0, "removing an absent key triggers no callback"),
        }
    }
    let processed = p.process_one_mask(M_DELETE);
    vassert!(processed, "remove queued a Delete item");
    vassert!(!p.process_one_mask(M_DELETE), "remove queued exactly one item");
    if f_cb {
        vassert!(p.cb.all() == if before.is_some() { 1 } else { 0 }, "processing the Delete triggers no second callback");
    }
    if f_sp {
        vassert!(!p.policy.contains(&k) && raw(&p.store, k).is_none(), "after the Delete is processed the key is neither resident nor charged");
        for e in [a, b] {
            if let Some(e) = e {
                if e.key != k {
                    vassert!(p.sp_ok(e.key) && raw(&p.store, e.key) == Some(e), "other keys stay resident and charged");
                }
            }
        }
    }
    vcover!(before.is_some(), "[client] removed a resident");
    vcover!(before.is_none() && a.is_some(), "[client] removed an absent key");
    std::mem::forget(p);
}

cache_harness! {
    [kani::unwind(6)]
    fn c08_client_remove() {
        client_remove(F_CB);
    }
}
cache_harness! {
    [kani::unwind(6)]
    fn c06_client_remove() {
        client_remove(F_SP);
    }
}

// ------------------------------------------------------------------------------------------------
// C11: clear()
// ------------------------------------------------------------------------------------------------

cache_harness! {
    [kani::unwind(6)]
    fn c11_clear_seq() {
        // arbitrary quiescent state + one buffered, not yet applied New item; clear() on the client
        // side, then the processor handles the clear signal (the cleaner drains the buffer)
        let mut cfg = any_cfg();
        cfg.metrics = true;
        let (mut p, a, b, _ents) = any_parked(TransparentKeyBuilder::<u64>::default(), 0, cfg, Some(true));
        let k = nd::any_u64();
        let queued = nd::any_bool();
        if queued {
            let item = Item::New { key: k, conflict: 0, cost: nd::any_i64_in(0, COST_MAX), value: 2, expiration: time_at(clock::get(), any_duration(4)) };
            vassert!(p.enqueue(item), "buffer has room");
        }
        p.metrics.add(MetricType::Hit, k, 1);
        let r = p.cache.clear();
        vassert!(r.is_ok(), "clear() returns Ok");
        vassert!(p.cache.len() == 0, "after clear() nothing is resident");
        vassert!(policy_used(&p.policy) == 0 && policy_len(&p.policy) == 0, "after clear() the charged cost is zero");
        vassert!(policy_estimate(&p.policy, k) == 0, "after clear() the popularity estimator is zeroed");
        vassert!(mrec::get(&p.metrics, MetricType::Hit) == 0 && mrec::get(&p.metrics, MetricType::CostAdd) == 0, "after clear() the metrics counters restart from zero");
        for e in [a, b] {
            if let Some(e) = e {
                vassert!(p.cache.get(&e.key).is_none(), "no entry inserted before the clear() is retrievable");
            }
        }
        let handled = p.process_clear();
        vassert!(handled, "clear() signalled the processor");
        vassert!(p.proc_.insert_buf_rx.try_recv().is_err(), "the cleaner drained the insert buffer: buffered work is discarded");
        vassert!(p.cache.len() == 0 && policy_len(&p.policy) == 0 && policy_used(&p.policy) == 0, "at quiescence after clear() the cache is empty and nothing is charged");
        if queued {
            vassert!(p.cb.evicts(2) == 1 && p.cb.total(2) == 1, "a buffered insert discarded by clear() hands its value to on_evict exactly once");
        }
        vassert!(p.cb.total(0) == 0 && p.cb.total(1) == 0, "clear() drops resident values without a callback");
        vcover!(queued && a.is_some() && b.is_some(), "two residents and a buffered insert");
        vcover!(!queued && a.is_some(), "no buffered work");
        std::mem::forget(p);
    }
}

cache_harness! {
    [kani::unwind(6)]
    fn c11_reuse_after_clear() {
        // a key that had a TTL before the clear() is re-used afterwards with another TTL or none:
        // the cache must behave like a fresh one (the old deadline must not sweep the new entry)
        let cfg = any_cfg();
        let now = clock::set_nd(1000, th::SECS_MAX);
        let mut e = any_ent(now, 1, 4);
        e.val = 0;
        e.conflict = 0;
        let k = e.key;
        let store = store_from(Some(e), None, None, NdValidator::new(Some(true)));
        let charge = nd::any_i64_in(0, COST_MAX);
        let costs = slfu_from([Some((k, charge)), None, None], nd::any_i64_in(1, COST_MAX));
        let mut p = park(TransparentKeyBuilder::<u64>::default(), store, any_tinylfu(1, 6), costs, cfg);
        vassert!(p.cache.clear().is_ok(), "clear() returns Ok");
        vassert!(p.process_clear(), "clear() signalled the processor");
        // re-use the key
        let d2 = any_duration(4);
        let t_ins = clock::advance_nd(2);
        let cost2 = nd::any_i64_in(0, COST_MAX);
        let item = p.cache.try_update(k, 1, cost2, d2, false).unwrap();
        match item {
            Some((_, it)) => {
                vassert!(p.enqueue(it), "buffer has room");
            }
            None => {
                vassert!(false, "an insert of an absent key queues a New item");
            }
        }
        vassert!(p.process_one_mask(M_NEW), "the New item is processed");
        let admitted = raw(&p.store, k).is_some();
        // later: a cleanup tick somewhere after the OLD deadline
        let t_tick = clock::advance_nd(8);
        p.tick();
        let still = raw(&p.store, k).is_some();
        if admitted {
            let new_elapsed = !d2.is_zero() && t_tick >= t_ins + d2;
            vassert!(still || new_elapsed, "a key re-used after clear() is only reclaimed when its NEW TTL has elapsed (never because of its pre-clear deadline)");
            vassert!(p.sp_ok(k), "after the tick the re-used key is resident iff charged");
        }
        vcover!(admitted && d2.is_zero() && t_tick >= th::deadline(&e.exp) + Duration::from_secs(1), "re-used without TTL, tick after the old deadline");
        vcover!(admitted && !d2.is_zero() && still, "re-used with a TTL and still alive");
        vcover!(admitted && !still, "re-used entry reclaimed");
        std::mem::forget(p);
    }
}

// ------------------------------------------------------------------------------------------------
// C09: insert_if_present through the public entry point
// ------------------------------------------------------------------------------------------------

cache_harness! {
    [kani::unwind(6)]
    fn c09_if_present_api() {
        let cfg = any_cfg();
        let (p, a, b, _ents) = any_parked(TransparentKeyBuilder::<u64>::default(), 0, cfg, None);
        let k = nd::any_u64();
        let before = raw(&p.store, k);
        let charge_before = p.policy.cost(&k);
        let cost = nd::any_i64_in(0, COST_MAX);
        // also with work for the same key still buffered (a New that was not applied yet)
        let pending = nd::any_bool();
        if pending {
            let item = Item::New { key: k, conflict: 0, cost: 1, value: 3, expiration: time_at(clock::get(), Duration::ZERO) };
            vassert!(p.enqueue(item), "buffer has room");
        }
        // `try_insert_if_present` = closed-flag test + this call + the select! that enqueues the
        // returned item (the select! itself cannot be compiled by Kani: the vtable of crossbeam's
        // `dyn SelectHandle` reaches thread-locals). `None` is what makes the API return false.
        let r = p.cache.try_update(k, 2, cost, Duration::ZERO, true);
        vassert!(r.is_ok(), "insert_if_present does not fail");
        let r = r.unwrap();
        let vetoed = validator_last(&p.store) == Some(false);
        if before.is_none() {
            vassert!(r.is_none(), "insert_if_present on an absent key queues nothing and returns false");
            vassert!(raw(&p.store, k).is_none(), "insert_if_present never creates an entry");
            vassert!(p.cb.all() == 0, "insert_if_present on an absent key triggers no callback");
        } else if vetoed {
            vassert!(r.is_none(), "a vetoed insert_if_present queues nothing and returns false");
            vassert!(raw(&p.store, k) == before, "a vetoed insert_if_present leaves value and TTL exactly as they were");
        } else {
            vassert!(matches!(r, Some((_, Item::Update { .. }))), "insert_if_present on a resident key behaves as an update (an Update item is queued)");
            vassert!(raw(&p.store, k).map(|e| e.val) == Some(2), "insert_if_present on a resident key replaces the value");
        }
        std::mem::forget(r);
        vassert!(p.policy.cost(&k) == charge_before, "the client call itself does not touch the charges");
        vassert!(p.cache.len() == (a.is_some() as usize) + (b.is_some() as usize), "insert_if_present never changes the number of entries");
        vcover!(before.is_none() && pending, "absent key with a pending buffered insert");
        vcover!(before.is_some() && vetoed, "vetoed");
        vcover!(before.is_some() && !vetoed, "applied");
        std::mem::forget(p);
    }
}

// ------------------------------------------------------------------------------------------------
// C18: colliding keys at cache level
// ------------------------------------------------------------------------------------------------

fn cache_isolation(op: u8) {
        // key1 resident under (index, c1), key2 maps to the same index with conflict c2 not in {0, c1}
        let cfg = any_cfg();
        let now = clock::set_nd(1000, th::SECS_MAX);
        let k1 = nd::any_u64();
        let k2 = nd::any_u64();
        nd::assume(k1 >> 4 == k2 >> 4 && (k1 & 15) != (k2 & 15) && (k1 & 15) != 0 && (k2 & 15) != 0);
        let idx = k1 >> 4;
        // created up to 4 s ago with a TTL <= 4 s or none: the resident entry may already have expired
        // without having been swept (it is then invisible to lookups but still resident and charged)
        let back = any_duration(4);
        nd::assume(back <= now);
        let e = GEnt { key: idx, conflict: k1 & 15, val: 0, exp: time_at(now - back, any_duration(4)) };
        let store = store_from(Some(e), None, None, NdValidator::new(Some(true)));
        let charge = nd::any_i64_in(0, COST_MAX);
        let costs = slfu_from([Some((idx, charge)), None, None], nd::any_i64_in(1, COST_MAX));
        let mut p = park(CollidingKb, store, any_tinylfu(1, 6), costs, cfg);
        if op == 0 {
            vassert!(p.cache.get(&k2).is_none(), "a lookup of the colliding key does not read the other key's value");
            vassert!(p.cache.get_mut(&k2).is_none(), "get_mut of the colliding key does not reach the other key's value");
            vassert!(p.cache.get_ttl(&k2).is_none(), "get_ttl of the colliding key reports nothing");
            vcover!(true, "[lookup] lookups");
        } else if op == 1 {
            let item = p.cache.try_update(k2, 1, nd::any_i64_in(0, COST_MAX), any_duration(4), false).unwrap();
            vassert!(raw(&p.store, idx) == Some(e), "an insert of the colliding key does not overwrite the other key's value or TTL");
            vassert!(p.cb.all() == 0, "no callback fires for the resident value");
            if let Some((_, it)) = item {
                vassert!(p.enqueue(it), "buffer has room");
                vassert!(p.process_one_mask(M_NEW), "the queued item is processed");
                vassert!(raw(&p.store, idx) == Some(e), "processing the colliding insert leaves the resident value untouched");
                vassert!(p.cb.rejects(1) == 1 && p.cb.total(1) == 1 && p.cb.total(0) == 0, "the colliding key's value is refused through on_reject");
            } else {
                vassert!(false, "a colliding insert queues a New item");
            }
            vcover!(true, "[insert] colliding insert");
        } else {
            vassert!(p.cache.try_remove(&k2).is_ok(), "remove of the colliding key returns Ok");
            vassert!(raw(&p.store, idx) == Some(e), "remove of the colliding key does not remove the other key's value");
            vassert!(p.process_one_mask(M_DELETE), "the queued Delete is processed");
            vassert!(raw(&p.store, idx) == Some(e) && p.cb.all() == 0, "processing the colliding Delete leaves the resident value in place, no callback");
            vassert!(p.sp_ok(idx), "the resident key is still charged after a colliding remove (resident <=> charged)");
            vcover!(true, "[remove] colliding remove");
            vcover!(!e.exp.is_zero() && now - th::created(&e.exp) >= th::ttl_of(&e.exp), "[remove] colliding remove while the resident entry is expired but unswept");
        }
        std::mem::forget(p);
}

cache_harness! {
    [kani::unwind(6)]
    fn c18_cache_isolation_lookup() {
        cache_isolation(0);
    }
}
cache_harness! {
    [kani::unwind(6)]
    fn c18_cache_isolation_insert() {
        cache_isolation(1);
    }
}
cache_harness! {
    [kani::unwind(6)]
    fn c18_cache_isolation_remove() {
        cache_isolation(2);
    }
}

// ------------------------------------------------------------------------------------------------
// C20: builder validation; closed cache is inert
// ------------------------------------------------------------------------------------------------

#[cfg(kani)]
fn spawn_stub<F, T>(_f: F) -> std::thread::JoinHandle<T>
where
    F: FnOnce() -> T + Send + 'static,
    T: Send + 'static,
{
    panic!("VERIF: thread::spawn reached (Kani cannot execute threads)")
}

/// `CacheBuilder::new*` creates a `RandomState` (getrandom syscall) that `set_hasher` replaces at
/// once; the keys are irrelevant
#[cfg(kani)]
fn random_state_stub() -> std::collections::hash_map::RandomState {
    unsafe { std::mem::zeroed() }
}

/// `which` fixes ONE parameter to a concrete zero so that the validation returns before the (for
/// CBMC very expensive, and for Kani partly unexecutable) construction code; the other two
/// parameters are arbitrary, zero included
fn finalize_rejects(which: u8) {
    let n = if which == 0 { 0 } else { nd::any_usize() };
    let mc = if which == 1 { 0 } else { nd::any_i64() };
    let bs = if which == 2 { 0 } else { nd::any_usize() };
    let b = CacheBuilder::<u64, u64, TransparentKeyBuilder<u64>>::new_with_key_builder(n, mc, TransparentKeyBuilder::<u64>::default())
        .set_buffer_size(bs)
        .set_hasher(HS::default());
    match b.finalize() {
        Err(CacheError::InvalidNumCounters) => vassert!(n == 0, "InvalidNumCounters iff num_counters is zero"),
        Err(CacheError::InvalidMaxCost) => vassert!(n != 0 && mc == 0, "InvalidMaxCost iff max_cost is zero (and num_counters is not)"),
        Err(CacheError::InvalidBufferSize) => vassert!(n != 0 && mc != 0 && bs == 0, "InvalidBufferSize iff the insert buffer size is zero (and the others are not)"),
        _ => vassert!(false, "a zero num_counters / max_cost / buffer size is rejected with its specific error"),
    }
    vcover!(which == 0, "[n0] num_counters zero");
    vcover!(which == 1 && n != 0, "[mc0] only max_cost zero");
    vcover!(which == 1 && n == 0, "[mc0] both zero");
    vcover!(which == 2 && n != 0 && mc != 0, "[bs0] only the buffer size zero");
}

macro_rules! finalize_harness {
    ($name:ident, $which:expr) => {
        cache_harness! {
            [kani::unwind(6),
             kani::stub(std::thread::spawn, spawn_stub),
             kani::stub(std::collections::hash_map::RandomState::new, random_state_stub)]
            fn $name() {
                finalize_rejects($which);
            }
        }
    };
}
finalize_harness!(c20_finalize_rejects_n0, 0);
finalize_harness!(c20_finalize_rejects_mc0, 1);
finalize_harness!(c20_finalize_rejects_bs0, 2);

harness! {
    [kani::unwind(3)]
    fn c20_builder_wrapper_setters() {
        // the public CacheBuilder forwards every setter to the same-named core setter (whose frame
        // condition is c20_builder_core_setters): one step from an arbitrary builder state
        use crate::cache::builder::verif_harness as bh;
        let b = CacheBuilder { inner: bh::any_core() };
        let before = bh::snap(&b.inner);
        let op = nd::any_u8();
        nd::assume(op < bh::N_SETTERS);
        let u = nd::any_usize();
        let i = nd::any_i64();
        let f = nd::any_bool();
        let nanos = nd::any_u32();
        nd::assume(nanos < 1_000_000_000);
        let d = Duration::new(nd::any_u64(), nanos);
        let after = match op {
            0 => bh::snap(&b.set_num_counters(u).inner),
            1 => bh::snap(&b.set_max_cost(i).inner),
            2 => bh::snap(&b.set_buffer_items(u).inner),
            3 => bh::snap(&b.set_buffer_size(u).inner),
            4 => bh::snap(&b.set_metrics(f).inner),
            5 => bh::snap(&b.set_ignore_internal_cost(f).inner),
            6 => bh::snap(&b.set_cleanup_duration(d).inner),
            7 => bh::snap(&b.set_key_builder(bh::OtherKb).inner),
            8 => bh::snap(&b.set_coster(bh::OtherCoster).inner),
            9 => bh::snap(&b.set_update_validator(DefaultUpdateValidator::<u64>::default()).inner),
            10 => bh::snap(&b.set_callback(DefaultCacheCallback::<u64>::default()).inner),
            _ => bh::snap(&b.set_hasher(HS::default()).inner),
        };
        vassert!(after == bh::expect(before, op, u, i, f, d), "every CacheBuilder setter changes exactly the parameter it names and carries every other parameter over unchanged");
        vcover!(op == 3 && before.buffer_items != u, "set_buffer_size with a value different from buffer_items");
        vcover!(op == 7 && before.buffer_items != before.insert_buffer_size, "set_key_builder with buffer_items != insert buffer size");
    }
}

cache_harness! {
    [kani::unwind(6)]
    fn c20_closed_is_inert() {
        // once the closed flag is set every operation returns its "closed" result without effect
        let cfg = any_cfg();
        let (p, a, b, _ents) = any_parked(TransparentKeyBuilder::<u64>::default(), 0, cfg, Some(true));
        p.cache.is_closed.store(true, Ordering::SeqCst);
        let k = nd::any_u64();
        let n0 = p.cache.len();
        vassert!(p.cache.get(&k).is_none() && p.cache.get_mut(&k).is_none(), "get / get_mut return nothing on a closed cache");
        vassert!(p.cache.try_remove(&k).is_ok(), "remove returns Ok on a closed cache");
        vassert!(p.cache.clear().is_ok(), "clear returns Ok on a closed cache");
        vassert!(p.cache.wait().is_ok(), "wait returns Ok on a closed cache");
        vassert!(p.cache.close().is_ok(), "close returns Ok on a closed cache (idempotent)");
        vassert!(p.cache.len() == n0 && p.cb.all() == 0, "operations on a closed cache have no effect");
        vassert!(p.proc_.insert_buf_rx.try_recv().is_err() && p.proc_.clear_rx.try_recv().is_err(), "operations on a closed cache queue nothing");
        vcover!(a.is_some() && b.is_some(), "two residents");
        std::mem::forget(p);
    }
}

// ------------------------------------------------------------------------------------------------
// C12 (sequential slice): the real close() on an open cache, then a second close() and every other
// operation. Natively close() blocks on the rendezvous stop channel until the worker takes the
// signal; here the FIFO contract accepts it (= the worker took it), so the harness is Kani-only.
// ------------------------------------------------------------------------------------------------
#[cfg(kani)]
cache_harness! {
    [kani::unwind(6)]
    fn c12_close_seq() {
        let cfg = any_cfg();
        let (p, a, b, _ents) = any_parked(TransparentKeyBuilder::<u64>::default(), 0, cfg, Some(true));
        vassert!(p.cache.close().is_ok(), "close() on an open cache returns Ok");
        vassert!(p.cache.is_closed.load(Ordering::SeqCst) && p.policy.is_closed.load(Ordering::SeqCst), "after close() cache and policy are marked closed");
        // zero-sized messages: one clear signal, one stop signal per worker
        vassert!(chan::clear_signals() == 3, "close() sends one clear signal and exactly one stop signal to each of the two workers");
        vassert!(p.cache.close().is_ok(), "a second close() returns Ok");
        vassert!(chan::clear_signals() == 3, "a second close() sends nothing (a second rendezvous send would block forever: the worker is gone)");
        let k = nd::any_u64();
        let n0 = p.cache.len();
        vassert!(p.cache.get(&k).is_none() && p.cache.get_mut(&k).is_none(), "get / get_mut return nothing after close()");
        vassert!(p.cache.try_remove(&k).is_ok(), "remove returns Ok after close()");
        vassert!(p.cache.clear().is_ok(), "clear returns Ok after close()");
        vassert!(p.cache.wait().is_ok(), "wait returns Ok after close() without blocking");
        vassert!(p.cache.len() == n0 && p.cb.all() == 0, "operations after close() have no effect");
        vassert!(chan::insert_buf_len() == 0 && chan::clear_signals() == 3, "operations after close() queue nothing");
        vcover!(a.is_some() && b.is_some(), "two residents before the close");
        std::mem::forget(p);
    }
}

// ------------------------------------------------------------------------------------------------
// C10: wait() (narrowed scope, DESIGN 6/C10 and 8): the blocking half is replaced by "run the
// parked processor to quiescence, then the WaitGroup counter must be zero"
// ------------------------------------------------------------------------------------------------

#[cfg(kani)]
static mut C10_P: *mut Parked<TransparentKeyBuilder<u64>> = std::ptr::null_mut();
#[cfg(kani)]
static mut C10_CLEAR_FIRST: bool = false;

#[cfg(kani)]
static mut C10_INFLIGHT: Option<Item<u64>> = None;

#[cfg(kani)]
fn c10_driver() {
    unsafe {
        let p = &mut *C10_P;
        // an item the processor had already taken off the buffer when wait() was called
        if let Some(Item::New { key, conflict, cost, value, expiration }) = C10_INFLIGHT.take() {
            let r = p.proc_.handle_insert_event(Ok(Item::New { key, conflict, cost, value, expiration }));
            assert!(r.is_ok(), "the in-flight item is applied");
        }
        if C10_CLEAR_FIRST {
            // another thread's clear() lands after the marker was queued: the cleaner meets it
            assert!(p.cache.clear().is_ok(), "clear() returns Ok");
            assert!(p.process_clear(), "the clear signal is handled");
        } else {
            // the processor consumes the queue in order; the harness knows which kinds of item it
            // queued, so only those arms of handle_item are explored
            if C10_DO_INS {
                assert!(p.process_one_mask(M_NEW | M_UPDATE), "the queued insert is processed");
            }
            if C10_DO_REM {
                assert!(p.process_one_mask(M_DELETE), "the queued Delete is processed");
            }
            assert!(p.process_one_mask(M_WAIT), "the Wait marker is processed");
        }
    }
}

#[cfg(kani)]
static mut C10_DO_INS: bool = false;
#[cfg(kani)]
static mut C10_DO_REM: bool = false;

#[cfg(kani)]
fn c10_wait(clear_race: bool) {
    let cfg = any_cfg();
    let (mut p, a, b, _ents) = any_parked(TransparentKeyBuilder::<u64>::default(), 0, cfg, Some(true));
    // enough room for one more entry: the policy must admit it
    let k_ins = nd::any_u64();
    let k_rem = nd::any_u64();
    let cost = nd::any_i64_in(0, 1 << 20);
    let was_resident = raw(&p.store, k_ins).is_some();
    nd::assume(p.policy.cap() >= cost + p.item_size() + (1 << 20));
    let do_ins = nd::any_bool();
    let do_rem = nd::any_bool();
    if do_ins {
        if let Some((_, it)) = p.cache.try_update(k_ins, 2, cost, Duration::ZERO, false).unwrap() {
            vassert!(p.enqueue(it), "buffer has room");
        }
    }
    if do_rem {
        vassert!(p.cache.try_remove(&k_rem).is_ok(), "remove succeeds while the buffer has room");
    }
    unsafe {
        C10_P = &mut p as *mut _;
        C10_CLEAR_FIRST = clear_race;
        C10_DO_INS = do_ins;
        C10_DO_REM = do_rem;
        stubs::WG_DRIVER = Some(c10_driver);
        // there is room (assumed above): the policy admits without victims
        crate::policy::verif_harness::psync::CONTRACT_TRIVIAL = true;
        crate::policy::verif_harness::psync::CONTRACT_ADMIT = true;
    }
    let r = p.cache.wait();
    vassert!(r.is_ok(), "wait() returns Ok once the marker has been released");
    vassert!(p.proc_.insert_buf_rx.try_recv().is_err(), "everything queued before the marker has been consumed");
    if !clear_race {
        if do_ins && !(do_rem && k_rem == k_ins) {
            vassert!(raw(&p.store, k_ins).map(|e| e.val) == Some(2), "an insert issued before wait() is retrievable when wait() returns");
            vassert!(p.policy.contains(&k_ins), "an insert issued before wait() is charged when wait() returns");
        }
        if do_rem {
            vassert!(raw(&p.store, k_rem).is_none() && !p.policy.contains(&k_rem), "a remove issued before wait() is fully applied when wait() returns");
        }
    } else {
        vassert!(p.cache.len() == 0 && policy_len(&p.policy) == 0, "work discarded by a concurrent clear() leaves nothing behind");
    }
    vcover!(do_ins && do_rem && k_ins != k_rem && !was_resident, "insert and remove before wait");
    vcover!(!do_ins && !do_rem, "wait with nothing pending");
    let _ = (a, b);
    unsafe {
        stubs::WG_DRIVER = None;
    }
    std::mem::forget(p);
}

cache_harness! {
    [kani::unwind(7)]
    fn c10_wait_barrier() {
        #[cfg(kani)]
        c10_wait(false);
    }
}

/// the processor has already taken the last insert off the buffer (so the buffer is empty) but has
/// not applied it yet when wait() is called: wait() must still be a barrier for it
#[cfg(kani)]
fn c10_inflight() {
    let cfg = any_cfg();
    let (mut p, _a, _b, _ents) = any_parked_n(TransparentKeyBuilder::<u64>::default(), 0, cfg, Some(true), 1);
    let k_ins = nd::any_u64();
    let cost = nd::any_i64_in(0, 1 << 20);
    nd::assume(raw(&p.store, k_ins).is_none());
    nd::assume(p.policy.cap() >= cost + p.item_size() + (1 << 20));
    match p.cache.try_update(k_ins, 2, cost, Duration::ZERO, false).unwrap() {
        Some((_, it)) => {
            vassert!(p.enqueue(it), "buffer has room");
        }
        None => {
            vassert!(false, "an insert of an absent key queues a New item");
        }
    }
    // the processor receives the item ...
    let taken = p.proc_.insert_buf_rx.try_recv();
    vassert!(taken.is_ok(), "the processor receives the item");
    unsafe {
        C10_INFLIGHT = taken.ok();
        C10_P = &mut p as *mut _;
        C10_CLEAR_FIRST = false;
        C10_DO_INS = false;
        C10_DO_REM = false;
        stubs::WG_DRIVER = Some(c10_driver);
        crate::policy::verif_harness::psync::CONTRACT_TRIVIAL = true;
        crate::policy::verif_harness::psync::CONTRACT_ADMIT = true;
    }
    // ... and only now the client calls wait()
    let r = p.cache.wait();
    vassert!(r.is_ok(), "wait() returns Ok once the marker has been released");
    vassert!(raw(&p.store, k_ins).map(|e| e.val) == Some(2) && p.policy.contains(&k_ins), "an insert the processor had already taken off the buffer is applied when wait() returns");
    vcover!(true, "in-flight insert");
    unsafe {
        stubs::WG_DRIVER = None;
    }
    std::mem::forget(p);
}

cache_harness! {
    [kani::unwind(7)]
    fn c10_wait_inflight() {
        #[cfg(kani)]
        c10_inflight();
    }
}

cache_harness! {
    [kani::unwind(7)]
    fn c10_wait_vs_clear() {
        #[cfg(kani)]
        c10_wait(true);
    }
}

cache_harness! {
    [kani::unwind(7)]
    fn c08_remove_full_buffer() {
        // remove of a resident key while the insert buffer is full: remove reports the error, but
        // the value it already took out of the store is still handed to on_exit exactly once
        let mut cfg = any_cfg();
        cfg.insert_buf = 1;
        let (p, a, _b, _ents) = any_parked_n(TransparentKeyBuilder::<u64>::default(), 0, cfg, Some(true), 1);
        let k = nd::any_u64();
        let before = raw(&p.store, k);
        vassert!(p.enqueue(Item::Update { key: nd::any_u64(), cost: 1, external_cost: 0 }), "first item fits");
        let r = p.cache.try_remove(&k);
        vassert!(r.is_err(), "remove on a full buffer reports the error instead of blocking");
        vassert!(raw(&p.store, k).is_none(), "the key is gone from the store");
        match before {
            Some(e) => vassert!(p.cb.exits(e.val) == 1 && p.cb.all() == 1, "a value taken out of the store is handed to on_exit exactly once, also when queuing the Delete fails"),
            None => vassert!(p.cb.all() == 0, "removing an absent key triggers no callback"),
        }
        vcover!(before.is_some(), "resident removed on a full buffer");
        let _ = a;
        std::mem::forget(p);
    }
}

cache_harness! {
    [kani::unwind(7)]
    fn c10_wait_full_buffer() {
        // a full insert buffer: wait() returns an error instead of blocking
        let mut cfg = any_cfg();
        cfg.insert_buf = 1;
        let (p, _a, _b, _ents) = any_parked(TransparentKeyBuilder::<u64>::default(), 0, cfg, Some(true));
        let k = nd::any_u64();
        vassert!(p.enqueue(Item::Delete { key: k, conflict: 0 }), "first item fits");
        let r = p.cache.wait();
        vassert!(matches!(r, Err(CacheError::SendError(_))), "wait() on a full buffer returns SendError without blocking");
        let r2 = p.cache.try_remove(&k);
        vassert!(matches!(r2, Err(CacheError::ChannelError(_))), "remove on a full buffer reports the error instead of blocking");
        vcover!(true, "full buffer");
        std::mem::forget(p);
    }
}

// ------------------------------------------------------------------------------------------------
// C15 / C17: lookups are recorded toward popularity and counted as hit or miss
// ------------------------------------------------------------------------------------------------

cache_harness! {
    [kani::unwind(6)]
    fn c15_get_records() {
        // buffer_items = 1: every lookup, hit or miss, hands its index hash to the policy at once
        let mut cfg = any_cfg();
        cfg.buffer_items = 1;
        cfg.metrics = true;
        let (p, a, _b, _ents) = any_parked_n(TransparentKeyBuilder::<u64>::default(), 0, cfg, Some(true), 1);
        #[cfg(kani)]
        crate::verif_env::pushrec::reset();
        let k = nd::any_u64();
        let resident = raw(&p.store, k).is_some();
        let mutable = nd::any_bool();
        let hit = if mutable { p.cache.get_mut(&k).is_some() } else { p.cache.get(&k).is_some() };
        vassert!(hit == resident, "a lookup hits iff the key is resident (no TTL here)");
        #[cfg(kani)]
        {
            use crate::verif_env::pushrec;
            vassert!(pushrec::batches() == 1 && pushrec::flat_len() == 1 && pushrec::flat(0) == k, "every lookup, hit or miss, is recorded toward that key's popularity");
        }
        // natively (replay) the real push put the batch on the policy's queue
        #[cfg(not(kani))]
        {
            let b = crate::policy::verif_harness::psync::worker_try_recv(&p.worker);
            vassert!(b.map(|b| b.len() == 1 && b[0] == k).unwrap_or(false), "every lookup, hit or miss, is recorded toward that key's popularity");
        }
        vassert!(mrec::get(&p.metrics, MetricType::Hit) + mrec::get(&p.metrics, MetricType::Miss) == 1, "hits + misses equals the number of lookups made on the open cache");
        vassert!(mrec::get(&p.metrics, MetricType::Hit) == hit as u64, "a lookup counts as a hit iff it returned a value");
        // closed cache: not recorded, not counted
        p.cache.is_closed.store(true, Ordering::SeqCst);
        vassert!(p.cache.get(&k).is_none(), "a closed cache returns nothing");
        #[cfg(kani)]
        vassert!(crate::verif_env::pushrec::batches() == 1, "a lookup on a closed cache is not recorded");
        #[cfg(not(kani))]
        vassert!(crate::policy::verif_harness::psync::worker_try_recv(&p.worker).is_none(), "a lookup on a closed cache is not recorded");
        vassert!(mrec::get(&p.metrics, MetricType::Hit) + mrec::get(&p.metrics, MetricType::Miss) == 1, "a lookup on a closed cache is not counted");
        vcover!(hit && mutable, "get_mut hit");
        vcover!(!hit && a.is_some(), "miss next to a resident");
        std::mem::forget(p);
    }
}

cache_harness! {
    [kani::unwind(6)]
    fn c17_cache_counts() {
        // admission / eviction / rejection / update / removal accounting at cache level, metrics on:
        // I-M  keys_added - keys_evicted == number of charged entries,
        //      cost_added - cost_evicted == charged total (mod 2^64)
        // preserved by one processor event from a state that satisfies it.
        let mut cfg = any_cfg();
        cfg.metrics = true;
        let (mut p, a, _b, ents) = any_parked_n(TransparentKeyBuilder::<u64>::default(), 0, cfg, Some(true), 1);
        // establish I-M for the arbitrary pre-state: as if the resident had been admitted
        if let Some(x) = a {
            p.metrics.add(MetricType::KeyAdd, x.key, 1);
            p.metrics.add(MetricType::CostAdd, x.key, ents[0].unwrap().1 as u64);
        }
        let k = nd::any_u64();
        // the New event's counters are decided on the real add (c17_add_metrics_n2: CostAdd, CostEvict,
        // KeyEvict, RejectSets) and by the wiring harness (KeyAdd exactly on admission); here the
        // Update and Delete events
        let ev = nd::any_u8_in(1, 2);
        if ev == 1 {
            let item = Item::Update { key: k, cost: nd::any_i64_in(0, COST_MAX), external_cost: 0 };
            vassert!(p.proc_.handle_insert_event(Ok(item)).is_ok(), "Update handled");
            vcover!(a.map_or(false, |x| x.key == k && p.policy.cost(&k) < ents[0].unwrap().1), "cost lowered (two's-complement delta)");
        } else {
            let item = Item::Delete { key: k, conflict: 0 };
            vassert!(p.proc_.handle_insert_event(Ok(item)).is_ok(), "Delete handled");
            vcover!(a.map_or(false, |x| x.key == k), "resident deleted");
        }
        let ka = mrec::get(&p.metrics, MetricType::KeyAdd);
        let ke = mrec::get(&p.metrics, MetricType::KeyEvict);
        let ca = mrec::get(&p.metrics, MetricType::CostAdd);
        let ce = mrec::get(&p.metrics, MetricType::CostEvict);
        vassert!(ka.wrapping_sub(ke) == policy_len(&p.policy) as u64, "keys_added - keys_evicted equals the number of charged entries");
        vassert!(ca.wrapping_sub(ce) == policy_used(&p.policy) as u64, "cost_added - cost_evicted equals the charged total");
        std::mem::forget(p);
    }
}

// ------------------------------------------------------------------------------------------------
// Wiring of the processor's New arm (C06, C08, C16): for EVERY outcome of the policy (arbitrary
// verdict, arbitrary victim list) and every answer of the store, which store operations and
// callbacks does `handle_item(New)` issue? The store operations and the policy's bookkeeping
// themselves are decided by their own step lemmas; composed with this harness they give I-SP,
// the callback accounting and the cost reporting for the New event.
// ------------------------------------------------------------------------------------------------
#[cfg(kani)]
fn new_wiring() {
    use crate::policy::verif_harness::psync as ps;
    use crate::store::verif_harness::storerec as sr;
    let mut cfg = any_cfg();
    cfg.metrics = true;
    // one possibly resident (and charged) entry: a New item can also arrive for a key that is
    // already resident (stale duplicate, vetoed or colliding insert)
    let (mut p, _a, _b, _ents) = any_parked_n(TransparentKeyBuilder::<u64>::default(), 0, cfg, Some(true), 1);
    unsafe {
        ps::CONTRACT_WIRING = true;
        ps::ADD_CALLS = 0;
    }
    sr::reset();
    let k = nd::any_u64();
    let conflict = nd::any_u64();
    let cost = nd::any_i64_in(0, COST_MAX);
    let d = any_duration(4);
    let isz = if cfg.ignore_internal_cost { 0 } else { p.item_size() };
    unsafe {
        ps::ADD_KEY_RESIDENT = p.policy.contains(&k);
    }
    let item = Item::New { key: k, conflict, cost, value: 2, expiration: time_at(clock::get(), d) };
    let r = p.proc_.handle_insert_event(Ok(item));
    vassert!(r.is_ok(), "handling a New item does not fail");
    unsafe {
        vcover!(ps::ADD_KEY_RESIDENT, "[new] New item for an already charged key");
        vassert!(ps::ADD_CALLS == 1 && ps::ADD_KEY == k, "the policy is asked exactly once, for the item's key");
        vassert!(ps::ADD_COST == cost + isz, "the charge handed to the policy is the given cost plus the internal overhead unless ignored");
        let added = ps::ADD_OUT_ADDED;
        if added {
            vassert!(sr::INSERTS == 1 && sr::INS_KEY == k && sr::INS_CONFLICT == conflict && sr::INS_VAL == 2 && sr::INS_TTL_SECS == d.as_secs(), "an admitted item is stored exactly once with its key, conflict, value and deadline");
            vassert!(p.cb.total(2) == 0, "an admitted value is not handed to any callback");
            vassert!(mrec::get(&p.metrics, MetricType::KeyAdd) == 1, "keys_added counts the admission");
        } else {
            vassert!(sr::INSERTS == 0, "a refused item is not stored");
            vassert!(p.cb.rejects(2) == 1 && p.cb.total(2) == 1, "a refused value is handed to on_reject exactly once");
            vassert!(p.cb.cost_of(2) == cost + isz && p.cb.index_of(2) == k, "the cost reported to on_reject is the charged cost");
            vassert!(mrec::get(&p.metrics, MetricType::KeyAdd) == 0, "keys_added does not count a refusal");
        }
        // victims: whatever the verdict, every victim the policy un-charged is removed from the store
        let n = ps::ADD_OUT_N;
        vassert!(sr::REMOVES == n, "every victim reported by the policy - and nothing else - is removed from the store, whether or not the newcomer was admitted");
        let mut evicted = [0u8; 2];
        let mut i = 0;
        while i < n {
            vassert!(sr::REM_KEYS[i] == ps::ADD_OUT_KEYS[i] && sr::REM_CONFLICTS[i] == 0, "victims are removed by index hash, in the reported order");
            if sr::REM_FOUND[i] {
                evicted[sr::REM_VALS[i] as usize] += 1;
            }
            i += 1;
        }
        vassert!(p.cb.evicts(0) == evicted[0] && p.cb.evicts(1) == evicted[1], "every victim found in the store is handed to on_evict exactly once");
        vassert!(p.cb.exits(0) + p.cb.exits(1) + p.cb.rejects(0) + p.cb.rejects(1) == 0, "victims go to on_evict only");
        if n >= 1 && sr::REM_FOUND[n - 1] {
            let t = sr::REM_VALS[n - 1];
            vassert!(p.cb.cost_of(t) == ps::ADD_OUT_COSTS[n - 1] && p.cb.index_of(t) == ps::ADD_OUT_KEYS[n - 1], "the cost reported to on_evict is the victim's charged cost");
        }
        vcover!(!added && n == 2 && sr::REM_FOUND[0] && sr::REM_FOUND[1], "[new] rejected after two evictions");
        vcover!(added && n == 1, "[new] admitted with one victim");
        vcover!(added && n == 0, "[new] admitted without victims");
        ps::CONTRACT_WIRING = false;
    }
    std::mem::forget(p);
}

cache_harness! {
    [kani::unwind(6),
     kani::stub(crate::store::ShardedMap::try_insert, crate::store::verif_harness::storerec::try_insert),
     kani::stub(crate::store::ShardedMap::try_remove, crate::store::verif_harness::storerec::try_remove)]
    fn c06_new_wiring() {
        #[cfg(kani)]
        new_wiring();
    }
}

// ------------------------------------------------------------------------------------------------
// D6 (C06, C11): clear() issued by a client thread while the processor is between `policy.add` and
// `store.try_insert` of a New item (well-nested interposition at the yield point, DESIGN 5.3)
// ------------------------------------------------------------------------------------------------
static mut RACE_P: *mut Parked<TransparentKeyBuilder<u64>> = std::ptr::null_mut();

fn race_clear_hook(y: crate::verif_env::yp::Y) {
    if y == crate::verif_env::yp::Y::ItemAfterPolicyAdd {
        unsafe {
            let p = &*RACE_P;
            assert!(p.cache.clear().is_ok(), "clear() returns Ok");
        }
    }
}

cache_harness! {
    [kani::unwind(6)]
    fn c06_race_clear_in_new() {
        let cfg = any_cfg();
        let (mut p, _a, _b, _ents) = any_parked_n(TransparentKeyBuilder::<u64>::default(), 0, cfg, Some(true), 0);
        let k = nd::any_u64();
        let cost = nd::any_i64_in(0, 1 << 20);
        nd::assume(p.policy.cap() >= cost + p.item_size() + (1 << 20));
        #[cfg(kani)]
        unsafe {
            // there is room: the policy admits without victims (what the real add does: c07_add_rule_*)
            crate::policy::verif_harness::psync::CONTRACT_TRIVIAL = true;
            crate::policy::verif_harness::psync::CONTRACT_ADMIT = true;
        }
        let race = nd::any_bool();
        unsafe {
            RACE_P = &mut p as *mut _;
        }
        if race {
            crate::verif_env::yp::install(race_clear_hook);
        }
        let r = p.proc_.handle_insert_event(Ok(Item::New { key: k, conflict: 0, cost, value: 2, expiration: time_at(clock::get(), Duration::ZERO) }));
        crate::verif_env::yp::uninstall();
        vassert!(r.is_ok(), "handling a New item does not fail");
        // quiescence: the processor handles the clear signal, if any
        let cleared = p.process_clear();
        vassert!(cleared == race, "the clear signal is pending iff clear() was called");
        vassert!(p.sp_ok(k), "at quiescence the key is resident iff charged, also when a clear() landed between the policy's admission and the store insert of that key");
        vassert!(p.cache.len() == policy_len(&p.policy), "len() equals the number of charged entries at quiescence");
        vcover!(race, "clear() interposed");
        vcover!(!race, "no race");
        std::mem::forget(p);
    }
}
