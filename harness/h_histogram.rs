//! C17 (histogram part): `count == sum of buckets`, one sample lands in exactly the right bucket.
#![allow(dead_code, unused_imports)]
use super::*;
use crate::verif_nd::{self as nd, harness, vassert, vcover};

/// the first NB bounds of metrics::new_histogram_bound() (2, 4, 8, ...): `update` is generic in
/// the number of bounds; 16 bounds time out (float loads through Atomic<f64> are not constant
/// for CBMC), so the bounded claim is for NB bounds
const NB: usize = 4;
fn bounds() -> Vec<f64> {
    (1..=NB as u64).map(|idx| (1u64 << idx) as f64).collect()
}

harness! {
    [kani::unwind(7)]
    fn c17_histogram_update() {
        let h = Histogram::new(bounds());
        vassert!(h.count_per_bucket.len() == NB + 1, "n bounds give n+1 buckets");
        // arbitrary state with count == sum of buckets (three buckets arbitrary, the rest zero)
        let i0 = nd::any_usize_in(0, NB);
        let i1 = nd::any_usize_in(0, NB);
        let c0 = nd::any_i64_in(0, 1 << 40);
        let c1 = nd::any_i64_in(0, 1 << 40);
        h.count_per_bucket[i0].fetch_add(c0, Ordering::SeqCst);
        h.count_per_bucket[i1].fetch_add(c1, Ordering::SeqCst);
        h.count.store(c0 + c1, Ordering::SeqCst);
        let s0 = nd::any_i64_in(0, 1 << 50);
        h.sum.store(s0, Ordering::SeqCst);
        let v = nd::any_i64_in(0, 1 << 40);
        // expected bucket: first bound strictly greater than v, else the overflow bucket
        let mut exp = NB;
        let mut i = 0;
        while i < NB {
            if v < (1i64 << (i + 1)) {
                exp = i;
                break;
            }
            i += 1;
        }
        let mut before = [0i64; NB + 1];
        let mut j = 0;
        while j < NB + 1 {
            before[j] = h.count_per_bucket[j].load(Ordering::SeqCst);
            j += 1;
        }
        h.update(v);
        vassert!(h.count.load(Ordering::SeqCst) == c0 + c1 + 1, "one sample raises the count by one");
        vassert!(h.sum.load(Ordering::SeqCst) == s0 + v, "the sample is added to the sum");
        let mut total = 0i64;
        let mut j = 0;
        while j < NB + 1 {
            let now = h.count_per_bucket[j].load(Ordering::SeqCst);
            vassert!(now == before[j] + if j == exp { 1 } else { 0 }, "exactly the right bucket is incremented");
            total += now;
            j += 1;
        }
        vassert!(total == h.count.load(Ordering::SeqCst), "histogram count equals the sum of its buckets");
        vcover!(exp == NB, "overflow bucket");
        vcover!(exp == 0, "first bucket");
        vcover!(v == 15, "just below the last bound");
        h.clear();
        let mut j = 0;
        while j < NB + 1 {
            vassert!(h.count_per_bucket[j].load(Ordering::SeqCst) == 0, "clear zeroes every bucket");
            j += 1;
        }
        vassert!(h.count.load(Ordering::SeqCst) == 0, "clear zeroes the count");
    }
}
