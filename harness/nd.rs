//! Nondeterminism shim. Mounted into the crate as `crate::verif_nd` under
//! `--cfg transparencies_stretto_verif`.
//!
//! * under Kani every `any_*()` is a `kani::any()` (a symbolic variable decided by the solver);
//! * under a native build (`cargo test`, replay of a counterexample) every `any_*()` pops the next
//!   recorded byte vector of the tape given by `$VERIF_REPLAY` (one vector per `kani::any()` call,
//!   in trace order, exactly what `--concrete-playback=print` prints).
//!
//! All harness nondeterminism MUST go through this module so that a solver counterexample can be
//! replayed against the real build.
#![allow(dead_code, unused_macros, unused_imports)]

#[cfg(kani)]
mod imp {
    pub fn begin(_name: &str) -> bool {
        true
    }
    pub fn end() {}
    pub fn any_u8() -> u8 {
        kani::any()
    }
    pub fn any_u16() -> u16 {
        kani::any()
    }
    pub fn any_u32() -> u32 {
        kani::any()
    }
    pub fn any_u64() -> u64 {
        kani::any()
    }
    pub fn any_i64() -> i64 {
        kani::any()
    }
    pub fn any_usize() -> usize {
        kani::any()
    }
    pub fn any_bool() -> bool {
        kani::any()
    }
    pub fn assume(c: bool) {
        kani::assume(c)
    }
    pub fn replaying() -> bool {
        false
    }
}

#[cfg(not(kani))]
mod imp {
    use std::cell::RefCell;
    use std::collections::VecDeque;

    thread_local! {
        static TAPE: RefCell<VecDeque<Vec<u8>>> = RefCell::new(VecDeque::new());
        static ACTIVE: RefCell<bool> = RefCell::new(false);
    }

    /// Loads the tape. Format of the file: first line the harness name, then one line per
    /// recorded value: space-separated decimal bytes (an empty line = zero bytes).
    pub fn begin(name: &str) -> bool {
        let path = match std::env::var("VERIF_REPLAY") {
            Ok(p) => p,
            Err(_) => return false,
        };
        let txt = std::fs::read_to_string(&path).expect("VERIF_REPLAY unreadable");
        let mut lines = txt.lines();
        let hn = lines.next().unwrap_or("").trim();
        if hn != name {
            return false;
        }
        let mut q = VecDeque::new();
        for l in lines {
            let l = l.trim();
            if l.starts_with('#') {
                continue;
            }
            let v: Vec<u8> = l
                .split_whitespace()
                .map(|b| b.parse::<u8>().expect("bad byte in tape"))
                .collect();
            q.push_back(v);
        }
        TAPE.with(|t| *t.borrow_mut() = q);
        ACTIVE.with(|a| *a.borrow_mut() = true);
        println!("VERIF-REPLAY-BEGIN {}", name);
        true
    }

    pub fn end() {
        println!("VERIF-REPLAY-END-NO-VIOLATION");
    }

    fn pop(n: usize) -> [u8; 8] {
        let v = TAPE.with(|t| t.borrow_mut().pop_front());
        let v = match v {
            Some(v) => v,
            None => {
                println!("VERIF-REPLAY-TAPE-EXHAUSTED");
                // deterministic default: zeros (Kani leaves unconstrained values out of a trace
                // only when they do not matter)
                vec![0u8; n]
            }
        };
        if v.len() != n {
            println!("VERIF-REPLAY-TAPE-MISMATCH want={} got={}", n, v.len());
        }
        let mut out = [0u8; 8];
        for (i, b) in v.iter().take(8).enumerate() {
            out[i] = *b;
        }
        out
    }

    pub fn any_u8() -> u8 {
        pop(1)[0]
    }
    pub fn any_u16() -> u16 {
        let b = pop(2);
        u16::from_le_bytes([b[0], b[1]])
    }
    pub fn any_u32() -> u32 {
        let b = pop(4);
        u32::from_le_bytes([b[0], b[1], b[2], b[3]])
    }
    pub fn any_u64() -> u64 {
        u64::from_le_bytes(pop(8))
    }
    pub fn any_i64() -> i64 {
        i64::from_le_bytes(pop(8))
    }
    pub fn any_usize() -> usize {
        u64::from_le_bytes(pop(8)) as usize
    }
    pub fn any_bool() -> bool {
        pop(1)[0] & 1 == 1
    }
    pub fn assume(c: bool) {
        if !c {
            // The recorded values do not satisfy an assumption on the native path: the
            // counterexample does not reproduce (model artefact). Unwind with a marker payload.
            println!("VERIF-REPLAY-ASSUME-FAILED");
            std::panic::resume_unwind(Box::new(super::AssumeFailed));
        }
    }
    pub fn replaying() -> bool {
        ACTIVE.with(|a| *a.borrow())
    }
}

pub struct AssumeFailed;

pub use imp::*;

/// value in `[lo, hi]` (inclusive)
pub fn any_u64_in(lo: u64, hi: u64) -> u64 {
    let v = any_u64();
    assume(v >= lo && v <= hi);
    v
}
pub fn any_i64_in(lo: i64, hi: i64) -> i64 {
    let v = any_i64();
    assume(v >= lo && v <= hi);
    v
}
pub fn any_usize_in(lo: usize, hi: usize) -> usize {
    let v = any_usize();
    assume(v >= lo && v <= hi);
    v
}
pub fn any_u8_in(lo: u8, hi: u8) -> u8 {
    let v = any_u8();
    assume(v >= lo && v <= hi);
    v
}

/// Vacuity witness: under Kani a `kani::cover!`, natively nothing.
macro_rules! vcover {
    ($cond:expr, $msg:literal) => {{
        #[cfg(kani)]
        kani::cover!($cond, $msg);
        #[cfg(not(kani))]
        {
            let _ = &$cond;
        }
    }};
}
pub(crate) use vcover;

/// Property assertion with a stable label: the label is what known_findings.json keys on and what
/// the native replay looks for in the panic message. (A plain literal: Kani stringifies anything
/// else.) The driver recognises harness assertions by their location under /verif/harness/.
macro_rules! vassert {
    ($cond:expr, $label:literal) => {{
        assert!($cond, $label);
    }};
}
pub(crate) use vassert;

/// Declares a harness that is a `#[kani::proof]` under Kani and a replaying `#[test]` natively.
/// Extra Kani attributes are given in full: `harness!{ [kani::unwind(5), kani::stub(a, b)] fn x() {..} }`
macro_rules! harness {
    ([$($k:meta),* $(,)?] fn $name:ident() $body:block) => {
        #[cfg_attr(kani, kani::proof)]
        $(#[cfg_attr(kani, $k)])*
        #[cfg_attr(not(kani), test)]
        #[allow(unused_mut, unused_variables)]
        fn $name() {
            if !crate::verif_nd::begin(stringify!($name)) {
                return;
            }
            #[cfg(not(kani))]
            {
                let r = std::panic::catch_unwind(std::panic::AssertUnwindSafe(|| $body));
                match r {
                    Ok(()) => crate::verif_nd::end(),
                    Err(e) => {
                        if e.downcast_ref::<crate::verif_nd::AssumeFailed>().is_some() {
                            return;
                        }
                        std::panic::resume_unwind(e)
                    }
                }
            }
            #[cfg(kani)]
            $body
        }
    };
}
pub(crate) use harness;
