#!/usr/bin/env python3
"""prints the seeded-change detection table (markdown) from seeded/*/meta.json and target/seedruns/*/*.out, and records the detection in meta.json"""
import json, os, glob, re
V = "/verif"
rows = []
for d in sorted(glob.glob(V + "/seeded/C*")):
    sid = os.path.basename(d)
    m = json.load(open(d + "/meta.json"))
    det = []
    for out in sorted(glob.glob(V + "/target/seedruns/%s/*.out" % sid)):
        t = open(out, errors="replace").read()
        prop = os.path.basename(out)[:-4]
        viol = re.findall(r"^VIOLATION property=(\S+) replay=(\S+)\n\s+harness=(\S+) assertion=(.*?) release=(\S+)", t, re.M)
        ok = re.search(r"^\[%s\] OK" % prop, t, re.M)
        infra = re.findall(r"^INFRA-ERROR: (.*)", t, re.M)
        for v in viol:
            det.append({"check": prop, "harness": v[2], "assertion": v[3], "native_release": v[4]})
        if not viol:
            solver_failed = re.findall(r"^\[%s\] (\S+)\s+FAILED\s+checks=(\d+) failed=(\d+)" % prop, t, re.M)
            if not ok and not infra and solver_failed:
                # the run was still generating the native replay tape when it was recorded
                h, nchk, nf = solver_failed[0]
                det.append({"check": prop, "harness": None, "result": "solver verdict FAILED in `%s` (%s of %s checks); the native replay (concrete playback, ~25 GB) had not finished when the session ended, so no VIOLATION line was printed - counted as not caught" % (h, nf, nchk)})
                continue
            det.append({"check": prop, "harness": None, "result": "passed (missed)" if ok else ("infrastructure error: " + "; ".join(infra)[:200])})
    m["detection"] = det
    json.dump(m, open(d + "/meta.json", "w"), indent=1)
    OUTSIDE = {
        "C17b": "**missed** (not run): the changed code is the `default` arm of `try_insert_in`'s crossbeam `select!`, which Kani cannot compile (ICE); the async twin of that arm needs a suspended send (event-listener), which does not finish",
        "C19b": "**missed** (not run): the changed code is the async processor's task loop (`CacheProcessor::spawn`: timers, `select!` over four futures), which no harness can execute",
    }
    if sid in OUTSIDE and not det:
        m["detection"] = [{"check": m.get("breaks_property"), "harness": None, "result": OUTSIDE[sid]}]
        json.dump(m, open(d + "/meta.json", "w"), indent=1)
        rows.append("| %s | %s | %s | %s |" % (sid, m.get("breaks_property", ""), m.get("change", "").replace("|", "/"), OUTSIDE[sid]))
        continue
    caught = [x for x in det if x.get("harness")]
    if caught:
        res = "; ".join(sorted(set("`%s` (%s)" % (x["harness"], x["check"]) for x in caught)))
    elif det:
        res = "**missed**: " + det[0].get("result", "")
    else:
        res = "not run"
    rows.append("| %s | %s | %s | %s |" % (sid, m.get("breaks_property", ""), m.get("change", "").replace("|", "/"), res))
print("| seed | property | change | caught by |\n|---|---|---|---|")
print("\n".join(rows))
