#!/bin/bash
# run checks against a seeded change in a scratch worktree of /repo (never touches /repo itself)
# usage: tools/seedcheck.sh <seed-id> <slotbase> <PROP> [--only h ...]
id=$1; base=$2; prop=$3; shift 3
wt=/tmp/seedrun/$id
mkdir -p /tmp/seedrun /verif/target/seedruns/$id
bcommit=$(python3 -c "import json;print(json.load(open('/verif/seeded/$id/meta.json')).get('base_commit','HEAD'))" 2>/dev/null || echo HEAD)
# the scratch worktree is at the commit the seed was written against, plus the hooks/fixes that came later are NOT needed:
# the harness sources live in /verif and are mounted by absolute path
if [ ! -d $wt ]; then git -C /repo worktree add -q --detach $wt $bcommit || exit 2; fi
git -C $wt checkout -q -- . ; git -C $wt apply /verif/seeded/$id/patch.diff || { echo "patch does not apply"; exit 2; }
cd /verif
VERIF_REPO=$wt VERIF_SLOT_BASE=$base VERIF_JOBS=2 VERIF_EVIDENCE_DIR=/verif/target/seedruns/$id VERIF_REPLAY_DIR=/verif/target/seedruns/$id ./check $prop "$@" > /verif/target/seedruns/$id/$prop.out 2>&1
rc=$?
echo "seed=$id prop=$prop rc=$rc $(grep -c '^VIOLATION' /verif/target/seedruns/$id/$prop.out) violation line(s)"
grep -E '^VIOLATION|harness=|INFRA' /verif/target/seedruns/$id/$prop.out | head -6
git -C $wt checkout -q -- .
