#!/usr/bin/env python3
"""regenerates the seeded-change table inside DESIGN.md (between the SEEDTABLE markers)"""
import subprocess, re
t = subprocess.run(["python3", "/verif/tools/seedtable.py"], capture_output=True, text=True).stdout
s = open("/verif/DESIGN.md").read()
s = re.sub(r"<!-- SEEDTABLE BEGIN -->.*<!-- SEEDTABLE END -->", "<!-- SEEDTABLE BEGIN -->\n" + t.strip().replace("\\", "\\\\") + "\n<!-- SEEDTABLE END -->", s, flags=re.S)
open("/verif/DESIGN.md", "w").write(s)
