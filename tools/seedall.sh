#!/bin/bash
# seed -> (property check, harnesses that should catch it)
cd /verif
run() { tools/seedcheck.sh "$@" >> target/logs/seedall.txt 2>&1; }
: > target/logs/seedall.txt
run C02 0 C02 --only c02_client_remove
run C03 0 C03 --only c03_em_step_update
run C06 0 C06 --only c06_new_wiring
run C08 0 C08 --only c08_proc_delete
run C09 0 C09 --only c09_store_veto_update
run C15 0 C15 --only c15_ring_batches
run C16 0 C16 --only c16_proc_update
run C18 0 C18 --only c18_cache_isolation_remove
