#!/bin/bash
# run, for every seeded change, the quick (or, where marked, thorough) check of the property it breaks, restricted to the harness expected to catch it
cd /verif
base=${1:-4}
run() { tools/seedcheck.sh "$@" >> target/logs/seedall.txt 2>&1; }
run C01b $base C01 --only c01_slfu_step
run C02 $base C02 --only c02_client_remove
run C02b $base C02 --only c02_new_wiring
run C03b $base C03 --only c03_client_insert
run C04 $base C04 --only c04_store_sweep
run C06 $base C06 --only c06_new_wiring
run C06b $base C06 --only c06_store_sweep
run C08b $base C08 --only c08_remove_full_buffer
run C09b $base C09 --only c09_client_insert
run C10 $base C10 --only c10_wait_inflight --only c10_wait_barrier
run C11 $base C11 --only c11_store_sweep
run C11b $base C11 --only c11_clear_seq
run C13b $base C13 --only c13_tinylfu_new
run C15b $base C15 --only c15_batch_reset
run C16 $base C16 --only c16_proc_update
run C16b $base C16 --only c16_new_wiring
run C18 $base C18 --only c18_cache_isolation_remove
run C20 $base C20 --only c20_sketch_new_widths
