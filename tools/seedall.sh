#!/bin/bash
# seed -> (property check, harnesses that should catch it)
cd /verif
run() { tools/seedcheck.sh "$@" >> target/logs/seedall.txt 2>&1; }
: > target/logs/seedall.txt
run C02 4 C02 --only c02_client_remove
run C03 4 C03 --only c03_em_step_update
run C06 4 C06 --only c06_new_wiring
run C08 4 C08 --only c08_proc_delete
run C09 4 C09 --only c09_store_veto_update
run C15 4 C15 --only c15_ring_batches
run C16 4 C16 --only c16_proc_update
run C18 4 C18 --only c18_cache_isolation_remove
