#!/bin/bash
# run the quick tier of the given properties sequentially, logging each to target/logs/run-<P>.txt
cd /verif
for p in "$@"; do
  ./check $p > target/logs/run-$p.txt 2>&1
  echo "$p exit=$?" >> target/logs/runall-summary.txt
done
