#!/usr/bin/env python3
"""Regenerates /verif/MANIFEST.json from the table below + harness_index.json.
A property is claimed iff it has an entry in CLAIMS *and* harnesses in harness_index.json."""
import json, os, subprocess
V = os.path.dirname(os.path.dirname(os.path.abspath(__file__)))
index = json.load(open(os.path.join(V, "harness_index.json")))

TECH = "bounded model checking of the real Rust code with Kani 0.68 / CBMC 6.11 (SAT, CaDiCaL): #[kani::proof] harnesses over kani::any() inputs and arbitrary invariant-satisfying pre-states, unwinding assertions on, counterexamples replayed natively"

CLAIMS = {
 "C01": {
  "text": "Inductive step lemmas, each decided for ALL inputs within bounds from an ARBITRARY state satisfying the representation invariant I-P (charged total == sum of per-entry charges, charges >= 0): SampledLFU increment/remove/update/clear and the LFUPolicy wrappers preserve I-P and change exactly the addressed entry's charge; room_left(c) >= 0 iff used + c <= max_cost; update_max_cost takes effect for the next computation; one processor New event at cache level preserves I-P. The admission clauses are decided on the REAL LFUPolicy::add (c01_add_rule_n2 = c07_add_rule_n2; <= 3 residents and the real estimator in the thorough tier): every admission of a new key re-establishes total <= max_cost, an entry whose own cost exceeds max_cost is never admitted and changes nothing, a resident key's charge is replaced in place.",
  "note": "<= 3 residents per map, costs <= 2^40 (no i64 overflow), one step per harness; histories by induction over I-P, schedules only as sequences of lock-protected operations. In the add harness popularity is an uninterpreted function per key.",
  "design": "6/C01"},
 "C02": {
  "text": "One store operation (try_insert / try_update / try_remove / get / get_mut+write) from an arbitrary store with <= 2 entries is compared against plain map semantics: the addressed key ends up holding exactly the prescribed (value, conflict, deadline), every other key is untouched, Update hands back the previous value of that same key, a non-vetoed update replaces the value immediately. At cache level the client half of insert (Cache::try_update) replaces the value of a resident key at once and a following get returns it; remove makes the key unretrievable from the moment it returns.",
  "note": "Values are arbitrary u64 tags; 1 shard, 3-slot maps, <= 2 residents; one operation per harness (induction over histories). Multi-writer races inside a shard are serialised by the shard RwLock (trusted); ValueRef lifetime extension (unsafe) only checked on single-threaded uses.",
  "design": "6/C02"},
 "C03": {
  "text": "Time kernel at full width (seconds < 2^40, every nanosecond value): is_expired iff d <= now - created; get_ttl is d - elapsed before the deadline, ZERO after, MAX without TTL, never increasing. Store lookups (get/get_mut/ValueRef::ttl) at an arbitrary instant return a value iff resident, conflict matches and the TTL has not elapsed; re-insert replaces the deadline (checked in c02_client_insert / c04_em_store_update: expiration == new, and the expiry index follows).",
  "note": "Virtual clock, non-decreasing readings assumed; store harness with creation instants within 4 s of now and TTLs <= 4 s + arbitrary ns (the kernel harness has no window).",
  "design": "6/C03"},
 "C04": {
  "text": "Expiry-index invariant I-EM (every entry with a TTL is filed, with its conflict, under the bucket of its deadline; entries without TTL are not filed; a neighbour sharing an expiry second stays filed) is preserved by ShardedMap::try_insert/try_update/try_remove from an arbitrary I-EM state with TTLs switching on and off; together with C05's cleanup lemmas (only due buckets are handed out, only elapsed TTLs are removed) and C06's I-SP this gives 'nothing is swept early'. 'Nothing refused or evicted while there is room' is decided on the real LFUPolicy::add (c04_room_admits). The store's update / insert addressed at an entry whose TTL has elapsed but which was not swept yet still sees that entry (c04_store_update_ttl / _insert_ttl), so a re-insert in that window is applied and not lost.",
  "note": "<= 2 entries, 3-slot maps, 4 s window. The add harness uses an uninterpreted popularity function.",
  "design": "6/C04"},
 "C05": {
  "text": "Bucket arithmetic at full width: an entry is filed under floor(deadline)+1; a pass at t may sweep buckets <= floor(t); every bucket that is due only holds elapsed TTLs; one bucket width after the deadline the bucket is due. ExpirationMap step lemmas (insert/update/remove keep neighbours filed; update un-files only the key); try_cleanup hands out every due bucket however late the pass is, and nothing that is not due. The sweep (ShardedMap::try_cleanup, for an arbitrary listing handed out by the index) removes only entries whose own TTL has elapsed and every such listed entry, reports each exactly once with its charged cost, and un-charges exactly what it removes.",
  "note": "That the ticker fires every cleanup interval (crossbeam tick) is outside; decided is that ANY pass at or after deadline + 1 s reclaims, so the delay is one bucket width plus the distance to the next tick. <= 2 entries.",
  "design": "6/C05"},
 "C06": {
  "text": "I-SP (resident <=> charged, len() == number of charged entries) is preserved by the processor's Update / Delete events, by its New event (as the New arm's wiring for every outcome of policy and store, plus the monolithic event in the thorough tier), by the cleanup sweep (ShardedMap::try_cleanup with the policy's cost/remove recorded) and by client remove + its Delete, from an arbitrary quiescent I-SP state, for every admission/eviction decision of the policy (contract stub).",
  "note": "Histories by induction; schedules only as sequences of whole events (DESIGN 5); the clear()-inside-handle_item race (D6) is decided by the interposition harness c06_race_clear_in_new and is a recorded known finding (known_findings.json). <= 2 residents (1 for New in the quick tier), TransparentKeyBuilder (conflict 0).",
  "design": "6/C06"},
 "C07": {
  "text": "The REAL LFUPolicy::add (admission / eviction loop, fill_sample, room arithmetic) executed from an arbitrary I-P state with <= 2 residents (quick; <= 3 thorough) in arbitrary map slots, arbitrary charges, arbitrary max_cost including over-budget pre-states, arbitrary popularity per key, arbitrary incoming (key, cost): with room the newcomer is always admitted and nothing evicted; without room every resident that lost its charge was no more popular than the newcomer and no more popular than any survivor (least popular of the sampled candidates), is reported as a victim with its charge, evictions free enough room when the newcomer is admitted, and the newcomer is rejected exactly when strictly less popular than the least popular remaining candidate; oversize and resident keys handled as specified.",
  "note": "Popularity is an uninterpreted function per key (the estimator is C13's subject; add does not modify it). Fewer than five residents: 'all if fewer' is the decided half of the sampling clause; WHICH five are sampled among more needs >= 6 residents and is outside the 3-slot map model. std HashMap -> kmap, Vec -> kvec models.",
  "design": "6/C07, 11.5"},
 "C08": {
  "text": "Ghost accounting with a recording callback: after each processor event or client call every value tag is in exactly one place - resident, or handed to exactly one of on_exit / on_evict / on_reject exactly once; replaced and removed values go to on_exit, evicted/expired to on_evict, refused to on_reject; processing a Delete after a client remove fires no second callback.",
  "note": "Step lemmas from arbitrary quiescent states with <= 2 residents; clear() drops residents without callback (the stated exception). Races between clients are covered only as sequences.",
  "design": "6/C08"},
 "C09": {
  "text": "Validator veto (symbolic answer = every predicate): store try_update/try_insert leave value, deadline AND expiry index exactly as they were; the client half of insert / insert_if_present (Cache::try_update) leaves the store untouched on veto or absent key, queues nothing for insert_if_present, also with a not-yet-applied New for the same key in the buffer.",
  "note": "Cache::try_insert_in's select! cannot be compiled by Kani; its pre-select half is what is decided, the enqueue and closed-flag test are by reading.",
  "design": "6/C09"},
 "C10": {
  "text": "NARROWED: with the blocking half of WaitGroup::wait replaced by 'run the parked processor to quiescence, then the counter must be zero', wait() enqueues its marker behind earlier work, the marker is released on the processor path and on the cleaner path (clear() racing after the marker was queued), admitted inserts are retrievable and charged and removes applied when it returns; an insert the processor had already taken off the buffer (buffer empty) when wait() is called is applied when wait() returns; on a full buffer wait() and remove() return errors instead of blocking; on a closed cache Ok without queuing.",
  "note": "The general barrier harness (an insert and a remove before wait(), c10_wait_barrier, ~14 min) is in the thorough tier; in-flight item, cleaner path and full buffer are quick. NOT decided: 'never blocks forever' under races with close() (O3: by reading it can hang), other threads' operations, real wake-ups.",
  "design": "6/C10, 8"},
 "C11": {
  "text": "clear() + the processor's handling of the clear signal from an arbitrary quiescent state with <= 2 residents and optionally a buffered New item: nothing inserted before is retrievable, len and charged cost are zero, estimator zeroed, metrics counters zero, buffered insert discarded through on_evict; a key that had a TTL before the clear and is re-used with another TTL or none is only reclaimed by its NEW deadline.",
  "note": "clear() landing between policy.add and store.try_insert of an in-flight item (D6) is decided by c11_race_clear_in_new: a recorded known finding.",
  "design": "6/C11"},
 "C12": {
  "text": "NARROWED to the sequential slice: the real Cache::close() on an open cache in an arbitrary quiescent state returns Ok, marks cache and policy closed and sends exactly one clear signal and one stop signal to each worker; a second close() returns Ok and sends nothing (a second rendezvous send would block forever); afterwards get / get_mut return nothing and remove / clear / wait return Ok without effect, without queuing anything and without blocking. Async flavour: insert returns false, get / get_mut return nothing and clear has no effect once the closed flag is set (the closed branches of the c19_async_client_* harnesses).",
  "note": "NOT decided (Kani cannot execute threads, tasks, crossbeam's blocking operations or parking): concurrent close() calls, operations racing a close, deadlock freedom on the rendezvous stop channels, that the two workers terminate after close() or when every handle is dropped; sync insert after close (try_insert_in's select! does not compile under Kani: by reading); AsyncCache::close() and wait() themselves (attempted: symbolic execution does not finish).",
  "design": "6/C12, 11.14"},
 "C13": {
  "text": "Step lemmas decided by the solver for ALL inputs within bounds: from an arbitrary counter row / arbitrary 4-row sketch with arbitrary seeds, increment raises exactly the addressed counter by one saturating at 15 and never lowers another estimate, reset halves every counter, clear zeroes; CountMinSketch::new(n) for every n in [1,65536] yields rows that can hold mask+1 counters and a fresh sketch estimates 0 then 1; TinyLFU step: estimate after increment == min(estimate+1, 16) unless the aging reset fired, in which case w=0, doorkeeper empty and counters halved; TinyLFU::new(n) has aging period n for every n in [1,65536]; a batch of 4 keys applied to a cleared estimator gives estimate >= #occurrences, and a batch that straddles an aging reset loses no key. By induction over these steps: estimate >= min(16, #recorded since last reset).",
  "note": "Rows of 1 and 4 bytes in the step harnesses (the loops are width-generic; other widths are outside the bounded claim), doorkeeper of 64-512 bits, seeds arbitrary (RNG stubbed by kani::any). Histories are covered by induction over one step from an arbitrary state, not by exploring sequences.",
  "design": "6/C13"},
 "C14": {
  "text": "Membership for an arbitrary filter (64 / 128 bits quick, 512 thorough), 1..8 probes, arbitrary 64-bit hashes: add => contains, bits only get set, contains_or_add returns !contains_before, reset/clear empty every word. Structural premises of the false-positive bound: every one of the m bits is individually addressable (set(i) changes exactly bit i), add sets exactly the positions (h + i*l) & size, get_size / the integer path of Bloom::new give a consistent geometry.",
  "note": "The statistical clause itself is not solver-decidable; the f64 sizing formula (ln/powf) is outside (CBMC's libm model is nondeterministic).",
  "design": "6/C14"},
 "C15": {
  "text": "RingStripe::push for every buffer_items in 0..3 and up to 5 lookups: every key appears exactly once, in order, in the handed-over batches; a batch is handed over exactly when the buffer reaches buffer_items whatever the policy answers; Cache::get/get_mut record every lookup, hit or miss, and nothing on a closed cache; the policy worker applying a batch raises each key's estimate by at least its multiplicity.",
  "note": "LFUPolicy::push's body (select! on the bounded(3) queue, KeepGets/DropGets accounting) cannot be compiled by Kani and is outside the claim; interleavings with the worker reduce to sequences of {push, apply batch} because both are mutex-protected.",
  "design": "6/C15"},
 "C16": {
  "text": "Charge formula: the queued item carries cost (+ Coster value when cost == 0, every Coster = arbitrary table); the processor charges cost + size_of::<StoreItem<V>>() unless ignore_internal_cost (both settings), Update re-charges cost + external + overhead, and the cost reported to on_reject / on_evict (eviction and expiry) equals the charged cost.",
  "note": "V = u64 only. Observation O2 (a vetoed or colliding insert overwrites the resident's charge through costs.update in add) is outside what the harnesses assert.",
  "design": "6/C16"},
 "C17": {
  "text": "MetricsInner's stripe index is < 256 for every 64-bit hash. Call sites (recorder stub in place of the striped atomics): each lookup on the open cache adds exactly one Hit or Miss; I-M (keys_added - keys_evicted == #charged, cost_added - cost_evicted == charged total mod 2^64) is preserved by New/Update/Delete events including the two's-complement negative delta; histogram update keeps count == sum of buckets and hits the right bucket.",
  "note": "The real 11 x 256 striped-atomics implementation (add / get / clear / ratio) did not finish within 2 h and is NOT decided beyond its index arithmetic. sets_dropped / gets_kept / gets_dropped live inside select! arms Kani cannot compile (by reading). Life expectancy: no entry is ever tracked (O1) so that clause holds vacuously. Histogram with the first 4 of the 16 real bounds.",
  "design": "6/C17"},
 "C18": {
  "text": "TransparentKeyBuilder for bool and all ten integer types at full width: index == key as u64 == to_u64, conflict 0, deterministic, injective. Collision isolation at store level (conflict mismatch => NotExist/Conflict/None and the resident entry untouched: c02_store_*) and at cache level with a key builder that forces two keys onto one index: lookups, insert and remove of the second key never read, overwrite or remove the first key's value; the colliding value is refused through on_reject.",
  "note": "The cache-level insert of the colliding key (c18_cache_isolation_insert, ~13 min) is in the thorough tier; store-level isolation of inserts / updates is quick (c02_store_*). DefaultKeyBuilder String/&str equality (SeaHash + xxh64 over symbolic bytes) exceeds 12 GB even for 4 bytes: outside (String::hash delegates to str::hash by construction).",
  "design": "6/C18"},
 "C19": {
  "text": "PARTLY decided. Processor side of the async flavour: cache::async::CacheProcessor::handle_insert_event (Update / Delete arms and the New arm's wiring for every outcome of the policy and the store) satisfies, from the same kind of arbitrary state, the same assertions as the sync flavour (charges, callbacks, resident <=> charged). Client side: AsyncCache::try_update, the whole insert path (closed flag, try_update, select!{send, default} with room in the buffer), try_remove (a Delete is queued whether or not the key was resident; value to on_exit once), get / get_mut (hit iff resident and TTL not elapsed, one Hit or Miss) and clear (one clear signal, store and policy emptied), each polled to completion in one poll over the real async_channel Send future with only Sender::try_send replaced by a FIFO contract, satisfy the assertions of the corresponding sync harnesses.",
  "note": "NOT decided: a suspended send (full insert buffer / the default arm of the async insert: event-listener does not finish under CBMC), wait() and close(), get with a full access ring (AsyncLFUPolicy::push), the async sweep try_cleanup_async and the tick (CBMC out of memory at 50 GB), the two background task loops, executors/spawners, wakers, polling order, async_io::Timer. 'Same observable results for the same operation sequence' is therefore only decided as 'both flavours' client methods and processor arms satisfy the same step lemmas'.",
  "design": "6/C19, 8"},
 "C20": {
  "text": "Panic-freedom is an implicit assertion of every harness (Kani checks every reachable panic, overflow, bounds). Specifically: CacheBuilder::finalize returns InvalidNumCounters / InvalidMaxCost / InvalidBufferSize exactly for a zero parameter; each of the twelve builder setters (core and public wrapper), from an arbitrary builder state, changes exactly the parameter it names, so what finalize validates and builds is what the user set, in any order of calls; CountMinSketch::new works for every num_counters in [1, 65536]; RingStripe for buffer_items 0..3; a closed cache is inert.",
  "note": "What finalize does after validation (thread spawning, Bloom::new float sizing) and worker liveness are outside; max_cost negative/1 only through the arbitrary max_cost in [-2^40, 2^40] of the policy harnesses.",
  "design": "6/C20"},
}

NOT_APPLICABLE = {

}

READY = set(open(os.path.join(V, "tools", "ready.txt")).read().split())
checks = []
for pid in sorted(index):
    if pid not in CLAIMS or pid not in READY:
        continue
    c = CLAIMS[pid]
    checks.append({
        "property_id": pid,
        "quick_cmd": "./check %s --tier quick" % pid,
        "thorough_cmd": "./check %s --tier thorough" % pid,
        "evidence_file": "/verif/evidence/%s.json" % pid,
        "replay_cmd_template": "./check --replay {path}",
        "engine": "kani",
        "level_claimed": {"category": "model_checking", "text": c["text"], "design_ref": c["design"]},
        "level_note": c["note"] + " Trusted: Kani/CBMC/CaDiCaL, rustc MIR, the kmap HashMap model, parking_lot fast paths, the stubs listed in the evidence file.",
        "technique": TECH,
    })

props = [json.loads(l)["id"] for l in open(os.path.join(V, "properties.jsonl"))]
na = []
for pid in props:
    if pid in [c["property_id"] for c in checks]:
        continue
    na.append({"property_id": pid, "reason": NOT_APPLICABLE.get(pid, "check not built yet in this tree (planned in DESIGN.md section 6); not claimed until its harnesses exist and pass")})

def head(repo):
    return subprocess.run(["git", "-C", repo, "log", "--format=%h %s", "-n", "30"], capture_output=True, text=True).stdout.splitlines()

hooks = [l.split()[0] for l in head("/repo") if l.split(" ", 1)[1].startswith("verif hooks")]
m = {
 "version": 1,
 "setup_cmd": "./check --setup",
 "hooks": {
  "guard": "--cfg transparencies_stretto_verif (rustc cfg flag, passed through RUSTFLAGS); the HashMap model and NUM_OF_SHARDS=1 additionally require cfg(kani)",
  "enable": "RUSTFLAGS='--cfg transparencies_stretto_verif' cargo kani -Z stubbing --harness <h>   (native replay: RUSTFLAGS='--cfg transparencies_stretto_verif' cargo test --lib <h>)",
  "baseline_off_cmd": "cd /repo && cargo test --workspace --no-fail-fast --offline",
  "source_commits": hooks,
  "add_only": False,
 },
 "engines": [{"name": "kani", "path": "/verif/check", "serves_properties": [c["property_id"] for c in checks],
              "kind_free_text": "python driver around cargo-kani 0.68 (CBMC 6.11 + CaDiCaL); harness sources in /verif/harness are mounted into the crate by #[path] hooks under the guard; counterexamples are replayed natively with cargo test"}],
 "checks": checks,
 "not_applicable": na,
 "notes": "Every check is a set of Kani proof harnesses over the real crate code, regenerated from /repo's working tree on each run. Exit 2 (never 0) on timeout, out-of-memory, failed unwinding assertion, unsatisfied vacuity witness or a counterexample that does not reproduce natively. add_only is false because 6 `use std::collections::HashMap` lines, the NUM_OF_SHARDS constant and ttl.rs's `use std::time::{..}` line are split into cfg/not(cfg) pairs (with the guard off they are token-identical to the original).",
}
json.dump(m, open(os.path.join(V, "MANIFEST.json"), "w"), indent=1)
print("claimed:", [c["property_id"] for c in checks])
