#!/usr/bin/env python3
"""Regenerates /verif/MANIFEST.json from the table below + harness_index.json.
A property is claimed iff it has an entry in CLAIMS *and* harnesses in harness_index.json."""
import json, os, subprocess
V = os.path.dirname(os.path.dirname(os.path.abspath(__file__)))
index = json.load(open(os.path.join(V, "harness_index.json")))

TECH = "bounded model checking of the real Rust code with Kani 0.68 / CBMC 6.11 (SAT, CaDiCaL): #[kani::proof] harnesses over kani::any() inputs and arbitrary invariant-satisfying pre-states, unwinding assertions on, counterexamples replayed natively"

CLAIMS = {
 "C13": {
  "text": "Step lemmas decided by the solver for ALL inputs within bounds: from an arbitrary counter row / arbitrary 4-row sketch with arbitrary seeds, increment raises exactly the addressed counter by one saturating at 15 and never lowers another estimate, reset halves every counter, clear zeroes; CountMinSketch::new(n) for every n in [1,65536] yields rows that can hold mask+1 counters and a fresh sketch estimates 0 then 1; TinyLFU step: estimate after increment >= min(estimate+1, 16) unless the aging reset fired, in which case w=0, doorkeeper empty and counters halved. By induction over these steps: estimate >= min(16, #recorded since last reset).",
  "note": "Rows of 1 and 4 bytes in the step harnesses (the loops are width-generic; other widths are outside the bounded claim), doorkeeper of 64-512 bits, seeds arbitrary (RNG stubbed by kani::any). Histories are covered by induction over one step from an arbitrary state, not by exploring sequences.",
  "design": "6/C13"},
}

NOT_APPLICABLE = {
 "C12": "close() finality/idempotence/worker termination is entirely about blocking rendezvous sends between OS threads and thread exit; Kani cannot execute crossbeam-channel, parking or std::thread (compile-time ICE on TLS destructors), and no stretto logic can be separated from them (DESIGN.md 6/C12, 8)",
}

checks = []
for pid in sorted(index):
    if pid not in CLAIMS:
        continue
    c = CLAIMS[pid]
    checks.append({
        "property_id": pid,
        "quick_cmd": "./check %s --tier quick" % pid,
        "thorough_cmd": "./check %s --tier thorough" % pid,
        "evidence_file": "/verif/evidence/%s.json" % pid,
        "replay_cmd_template": "./check --replay {path}",
        "engine": "kani",
        "level_claimed": {"category": "model_checking", "text": c["text"], "design_ref": c["design"]},
        "level_note": c["note"] + " Trusted: Kani/CBMC/CaDiCaL, rustc MIR, the kmap HashMap model, parking_lot fast paths, the stubs listed in the evidence file.",
        "technique": TECH,
    })

props = [json.loads(l)["id"] for l in open(os.path.join(V, "properties.jsonl"))]
na = []
for pid in props:
    if pid in [c["property_id"] for c in checks]:
        continue
    na.append({"property_id": pid, "reason": NOT_APPLICABLE.get(pid, "check not built yet in this tree (planned in DESIGN.md section 6); not claimed until its harnesses exist and pass")})

def head(repo):
    return subprocess.run(["git", "-C", repo, "log", "--format=%h %s", "-n", "30"], capture_output=True, text=True).stdout.splitlines()

hooks = [l.split()[0] for l in head("/repo") if l.split(" ", 1)[1].startswith("verif hooks")]
m = {
 "version": 1,
 "setup_cmd": "./check --setup",
 "hooks": {
  "guard": "--cfg transparencies_stretto_verif (rustc cfg flag, passed through RUSTFLAGS); the HashMap model and NUM_OF_SHARDS=1 additionally require cfg(kani)",
  "enable": "RUSTFLAGS='--cfg transparencies_stretto_verif' cargo kani -Z stubbing --harness <h>   (native replay: RUSTFLAGS='--cfg transparencies_stretto_verif' cargo test --lib <h>)",
  "baseline_off_cmd": "cd /repo && cargo test --workspace --no-fail-fast --offline",
  "source_commits": hooks,
  "add_only": False,
 },
 "engines": [{"name": "kani", "path": "/verif/check", "serves_properties": [c["property_id"] for c in checks],
              "kind_free_text": "python driver around cargo-kani 0.68 (CBMC 6.11 + CaDiCaL); harness sources in /verif/harness are mounted into the crate by #[path] hooks under the guard; counterexamples are replayed natively with cargo test"}],
 "checks": checks,
 "not_applicable": na,
 "notes": "Every check is a set of Kani proof harnesses over the real crate code, regenerated from /repo's working tree on each run. Exit 2 (never 0) on timeout, out-of-memory, failed unwinding assertion, unsatisfied vacuity witness or a counterexample that does not reproduce natively. add_only is false because 6 `use std::collections::HashMap` lines, the NUM_OF_SHARDS constant and ttl.rs's `use std::time::{..}` line are split into cfg/not(cfg) pairs (with the guard off they are token-identical to the original).",
}
json.dump(m, open(os.path.join(V, "MANIFEST.json"), "w"), indent=1)
print("claimed:", [c["property_id"] for c in checks])
