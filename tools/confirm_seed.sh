#!/bin/bash
# confirm a seeded change in the sub-agent's scratch worktree: tests pass with it, demo fails with it, demo passes without it
id=$1; wt=${2:-/tmp/seed/$id}; out=/verif/seeded/$id
base=$(python3 -c "import json;print(json.load(open('/verif/seeded/$id/meta.json')).get('base_commit','HEAD'))" 2>/dev/null || echo HEAD)
[ -d $wt ] || git -C /repo worktree add -q --detach $wt $base || exit 2
cd $wt || exit 2
export CARGO_NET_OFFLINE=true
git diff --quiet -- src && git apply $out/patch.diff
[ -f tests/seed_demo.rs ] || { mkdir -p tests; cp $out/seed_demo.rs tests/seed_demo.rs; }
t1=$(cargo test --offline --lib 2>&1 | grep -E '^test result' | head -1)
d1=$(cargo test --offline $SEED_FEATURES --test seed_demo 2>&1 | grep -E '^test result' | head -1)
git diff -- src > /tmp/seed/$id.applied.diff
git checkout -- src
d2=$(cargo test --offline $SEED_FEATURES --test seed_demo 2>&1 | grep -E '^test result' | head -1)
git apply /tmp/seed/$id.applied.diff
echo "$id | with-change lib: $t1 | with-change demo: $d1 | without-change demo: $d2"
python3 - "$id" "$t1" "$d1" "$d2" <<'PY'
import json,sys,os
id,t1,d1,d2=sys.argv[1:5]
p='/verif/seeded/%s/meta.json'%id
m=json.load(open(p)) if os.path.exists(p) else {}
m.update({"id":id,"confirmed":{"existing_suite_with_change":t1,"demo_with_change":d1,"demo_without_change":d2,
 "commands":["cargo test --offline --lib","cargo test --offline --test seed_demo","git checkout -- src && cargo test --offline --test seed_demo"]}})
json.dump(m,open(p,'w'),indent=1)
PY
