#!/usr/bin/env python3
"""Source of /verif/harness_index.json (property -> harnesses with tier, limits, bounds text)."""
import json, os
V = os.path.dirname(os.path.dirname(os.path.abspath(__file__)))
IDX = {}


# harnesses whose body only exists under Kani (recorder stubs / uninterpreted estimator / wait stub)
KANI_ONLY = {"c06_new_wiring", "c19_async_new_wiring", "c10_wait_barrier", "c10_wait_vs_clear", "c10_wait_inflight",
             "c13_tinylfu_new", "c07_add_rule_n2", "c07_add_rule_n3", "c17_add_metrics_n2", "c17_add_metrics_n3",
             "c19_async_client_remove_wiring", "c19_async_get_records", "c15_async_ring_batches",
             # natively the real close() blocks on the rendezvous stop channel until a worker takes the signal
             "c12_close_seq",
             }


def P(pid, assumptions=()):
    IDX[pid] = {"assumptions": list(assumptions), "harnesses": []}


# Harness functions that were written and attempted but do not finish within this machine's limits
# (62 GB, no swap) - a check that cannot finish can only exit 2, so they are not registered; the
# harness sources stay in /verif/harness and DESIGN.md 11.8 lists them with what happened.
DROPPED = {
    "c05_store_cleanup": "removed from the sources (superseded by c05_store_sweep + c05_em_cleanup_due)",
    "c19_async_tick": "CBMC out of memory (50 GB) after ~5 min",
    "c05_store_sweep_async": "CBMC out of memory (50 GB) during propositional reduction",
    "c06_proc_tick": "CBMC out of memory (40 GB) after ~12 min",
    "c08_proc_tick": "same body as c06_proc_tick",
    "c16_proc_tick": "same body as c06_proc_tick",
    "c05_proc_tick": "CBMC out of memory (40 GB) after ~13 min",
    "c17_metrics_inner": "timeout after 7200 s (11 x 256 atomics)",
    "c11_metrics_clear_stripes": "timeout after 1500 s in symbolic execution (8 GB and growing): the real MetricsInner over a BTreeMap holding ONE counter type (256 atomics), built by struct literal - the BTreeMap leaf node (11 x 2 KB values) is one flat byte array for CBMC",
    "c15_async_ring_batches": "CBMC's SAT back end ran out of its 16 GB limit after 955 s (symbolic execution finished, 4386 checks; two polled get() futures over the parked async cache with buffer_items symbolic in 0..2); the 40 GB retry was not completed in the time left",
    "c11_reuse_after_clear": "CBMC out of memory (50 GB) after ~15 min (clear + re-insert + tick through the whole parked pipeline)",
}


def H(pid, name, module, functions, bounds, tier="quick", timeout=600, mem_gb=16, **kw):
    if kw.get("alias_of", name) in DROPPED or name in DROPPED or pid == "PROBE":
        return
    d = {"name": name, "module": ("verif_harness" if module == "crate" else module + "::verif_harness"), "tier": tier, "timeout": timeout, "mem_gb": mem_gb,
         "functions": functions, "bounds": bounds}
    d.update(kw)
    if d.get("alias_of", name) in KANI_ONLY or name in KANI_ONLY:
        d["native"] = False
    if "module_override" in d:
        d["module"] = d.pop("module_override")
    IDX[pid]["harnesses"].append(d)


RNG = "RNG seeds of the sketch are arbitrary 64-bit values (stub of StdRng::next_u64/from_seed): more general than the real generator"

# ------------------------------------------------------------------ C13
P("C13", [RNG])
ROWF = ["CountMinRow::get", "CountMinRow::increment", "CountMinRow::reset", "CountMinRow::clear"]
SKF = ["CountMinSketch::increment", "CountMinSketch::estimate", "CountMinSketch::reset", "CountMinSketch::clear"]
H("C13", "c13_row_step_w4", "sketch", ROWF, "arbitrary row of 4 bytes (8 counters), arbitrary counter index, one operation", timeout=300)
H("C13", "c13_row_step_w1", "sketch", ROWF, "arbitrary row of 1 byte (2 counters), one operation", timeout=300)
H("C13", "c13_sketch_step_w4", "sketch", SKF, "arbitrary 4x4-byte sketch, arbitrary seeds, two arbitrary 64-bit hashes, one operation")
H("C13", "c13_sketch_step_w1", "sketch", SKF, "arbitrary 4x1-byte sketch (2 counters per row), arbitrary seeds, two arbitrary 64-bit hashes")
H("C13", "c13_sketch_new_widths", "sketch", ["CountMinSketch::new", "CountMinSketch::increment", "CountMinSketch::estimate"],
  "num_counters symbolic in [1, 65536]; arbitrary seeds; one arbitrary 64-bit hash", timeout=900)
TLF = ["TinyLFU::increment", "TinyLFU::estimate", "TinyLFU::try_reset", "TinyLFU::reset", "TinyLFU::clear", "Bloom::contains_or_add", "CountMinSketch::*"]
H("C13", "c13_tinylfu_step_w1", "policy", TLF, "arbitrary TinyLFU: 4x1-byte sketch, 64-bit doorkeeper with 1..3 probes, arbitrary w < samples <= 2^32; two arbitrary hashes; one operation")
H("C13", "c13_tinylfu_step_w4", "policy", TLF, "arbitrary TinyLFU: 4x4-byte sketch, 512-bit doorkeeper with 1..3 probes, arbitrary w < samples; two arbitrary hashes; one operation", timeout=900)
H("C13", "c13_tinylfu_batch", "policy", ["TinyLFU::increments"] + TLF, "cleared TinyLFU (4x4-byte sketch, 512-bit doorkeeper, 2 probes, samples > 4), batch of 4 arbitrary hashes", timeout=900)

H("C13", "c13_tinylfu_batch_reset", "policy", TLF + ["TinyLFU::increments"], "cleared TinyLFU with aging period 1..3, batch of 4 arbitrary hashes: the aging reset fires inside the batch", timeout=900)
H("C13", "c13_tinylfu_new", "policy", ["TinyLFU::new", "CountMinSketch::new", "TinyLFU::increment", "TinyLFU::estimate"], "num_counters symbolic in [1, 65536]; Bloom::new replaced by a literal 64-bit filter (its float sizing is not decidable); RNG stubbed", timeout=900)

# ------------------------------------------------------------------ C14
P("C14", ["the statistical clause (false-positive fraction within a constant factor of p) is not a solver-decidable statement; what is decided are membership and the structural premises of the textbook bound: all m bits individually addressable, each add sets exactly the prescribed <= k positions, geometry (m, k) consistent",
          "calc_size_by_wrong_positives (f64 ln/powf/ceil) is outside: CBMC's libm model is nondeterministic, so (capacity, rate) -> (bits, probes) is not decided; filters are built by literal or through the integer-ratio path of Bloom::new"])
BF = ["Bloom::set", "Bloom::is_set", "Bloom::add", "Bloom::contains", "Bloom::contains_or_add", "Bloom::reset", "Bloom::clear"]
H("C14", "c14_bits_addressable_512", "bbloom", ["Bloom::set", "Bloom::is_set"], "arbitrary 512-bit filter, arbitrary bit indexes i, j < 512")
H("C14", "c14_membership_128", "bbloom", BF, "arbitrary 128-bit filter (two words), probes 1..8, two arbitrary 64-bit hashes, one operation")
H("C14", "c14_membership_512", "bbloom", BF, "arbitrary 512-bit filter, probes 1..8, two arbitrary 64-bit hashes, one operation", tier="thorough", timeout=3600)
H("C14", "c14_membership_64", "bbloom", BF, "arbitrary 64-bit filter, probes 1..8, two arbitrary 64-bit hashes, one operation")
H("C14", "c14_add_sets_exactly_512", "bbloom", ["Bloom::add", "Bloom::is_set"], "arbitrary 512-bit filter, probes 1..8, arbitrary hash, arbitrary probe position")
H("C14", "c14_sizing", "bbloom", ["get_size", "Bloom::new (integer-ratio path)"], "capacity symbolic in [0, 65536], probes 1..8")

LOCKS = "parking_lot slow paths (lock_slow / lock_shared_slow / lock_exclusive_slow) are stubbed by panic!() and proved unreachable: locks are never contended on one thread"
CLOCK = "virtual clock: readings arbitrary (seconds < 2^41, every nanosecond value) but non-decreasing"

# ------------------------------------------------------------------ C03
P("C03", [CLOCK, LOCKS])
H("C03", "c03_time_kernel", "ttl", ["Time::is_expired", "Time::get_ttl", "Time::elapsed", "Time::unix", "Time::is_zero"],
  "full width: creation instant and TTL arbitrary with seconds < 2^40 and every nanosecond value; two arbitrary later readings now1 <= now2", timeout=900)

# ------------------------------------------------------------------ C05
P("C05", [CLOCK, LOCKS, "that the ticker really fires every cleanup interval (crossbeam tick / async_io Timer) is outside: decided is that ANY pass at or after deadline + 1s reclaims the entry, so the delay is bounded by one bucket width plus the distance to the next tick"])
H("C05", "c05_bucket_arith", "ttl", ["storage_bucket", "cleanup_bucket", "Time::unix", "Time::is_expired"],
  "full width: arbitrary entry (seconds < 2^40, all nanoseconds), arbitrary pass instant", timeout=900)
EMB = "map with one neighbour entry and optionally the subject key filed under an arbitrary old expiration; arbitrary old/new expirations (full width, zero TTL allowed)"
H("C05", "c05_em_step_insert", "ttl", ["ExpirationMap::try_insert"], EMB, timeout=1200, cover_tags=["insert"])
H("C05", "c05_em_step_update", "ttl", ["ExpirationMap::try_update"], EMB, timeout=1200, cover_tags=["update"])
H("C05", "c05_em_step_remove", "ttl", ["ExpirationMap::try_remove"], EMB, timeout=1200, cover_tags=["remove"])
H("C05", "c05_em_cleanup_due", "ttl", ["ExpirationMap::try_cleanup", "cleanup_bucket"],
  "two filed entries with arbitrary deadlines, cleanup pass at an arbitrary instant", timeout=1200)

# ------------------------------------------------------------------ C01
P("C01", [LOCKS, "costs and max_cost in [0, 2^40] / [-2^40, 2^40]: sums of realistic numbers of entries cannot overflow i64; cost overflow is outside the claim"])
H("C01", "c01_slfu_step", "policy", ["SampledLFU::increment", "SampledLFU::remove", "SampledLFU::update", "SampledLFU::clear", "SampledLFU::contains"],
  "arbitrary SampledLFU with <= 3 residents in arbitrary slots satisfying I-P, arbitrary key/cost, one operation")
H("C01", "c01_room_arith", "policy", ["SampledLFU::room_left", "SampledLFU::get_max_cost", "SampledLFU::update_max_cost"],
  "arbitrary SampledLFU with <= 3 residents, arbitrary cost and new max_cost")

# ------------------------------------------------------------------ C17
P("C17", [LOCKS])
H("C17", "c17_histogram_update", "histogram", ["Histogram::new", "Histogram::update", "Histogram::clear"],
  "the first 4 of the real power-of-two bounds (2,4,8,16; update is generic in the number of bounds, 16 bounds time out); arbitrary state with count == sum of buckets (two arbitrary buckets loaded), arbitrary sample in [0, 2^40]", timeout=900)

# ------------------------------------------------------------------ C18
P("C18", [LOCKS, CLOCK])
for t in ["bool", "u8", "u16", "u32", "u64", "usize", "i8", "i16", "i32", "i64", "isize"]:
    H("C18", "c18_transparent_" + t, "crate", ["TransparentKeyBuilder::hash_index", "TransparentKeyBuilder::hash_conflict", "KeyBuilder::build_key", "TransparentHasher::write_*", "TransparentKey::to_u64"],
      "every value of %s (full width), two arbitrary keys" % t, timeout=300)
H("C18", "c18_default_str_string_4", "crate", ["DefaultKeyBuilder::hash_index (SeaHasher)", "DefaultKeyBuilder::hash_conflict (xxh64)", "KeyBuilder::build_key"],
  "ASCII strings of 0..4 arbitrary bytes, arbitrary xxh64 seed; exceeds 12 GB: kept for reference, disabled", timeout=900, disabled=True)

# ------------------------------------------------------------------ store step lemmas (C02, C03, C04, C09)
STF = ["ShardedMap::try_insert", "ShardedMap::try_update", "ShardedMap::try_remove", "ShardedMap::get", "ShardedMap::get_mut", "ShardedMap::len", "ExpirationMap::try_insert", "ExpirationMap::try_update", "ExpirationMap::try_remove", "ValueRefMut::write"]
SB = "arbitrary store with <= 2 entries (arbitrary keys, conflicts, values) satisfying I-EM, arbitrary addressed key/conflict/value, validator answer symbolic, one operation; 1 shard, 3-slot maps"
P("C02", [LOCKS, CLOCK])
H("C02", "c02_store_insert", "store", STF, SB + "; entries without TTL", cover_tags=["insert"])
H("C02", "c02_store_update", "store", STF, SB + "; entries without TTL", cover_tags=["update"])
H("C02", "c02_store_remove", "store", STF, SB + "; entries without TTL", cover_tags=["remove"])
H("C02", "c02_store_lookup", "store", STF, SB + "; entries without TTL; get, get_mut and an in-place write", cover_tags=["lookup"], cover_optional=["lookup of an expired entry"])
P("C04", [LOCKS, CLOCK])
TTLB = "; resident and new entries with or without TTL (creation instants within 4 s before an arbitrary now, TTLs <= 4 s + arbitrary nanoseconds)"
H("C04", "c04_em_store_insert", "store", STF, SB + TTLB, timeout=1800, cover_tags=["insert"], mem_gb=28)
H("C04", "c04_em_store_update", "store", STF, SB + TTLB, timeout=1800, cover_tags=["update"], cover_optional=["update vetoed"], mem_gb=28)
H("C04", "c04_em_store_remove", "store", STF, SB + TTLB, timeout=1800, cover_tags=["remove"], mem_gb=28)
H("C04", "c04_store_update_ttl", "store", STF, SB + TTLB + "; addressed entry may be expired but not yet swept; expiry index not built", timeout=1200, cover_tags=["update"], cover_optional=["update vetoed"])
H("C04", "c04_store_insert_ttl", "store", STF, SB + TTLB + "; addressed entry may be expired but not yet swept; expiry index not built", timeout=1200, cover_tags=["insert"])
for op in ["insert", "update", "remove"]:
    H("C04", "c04_em_step_" + op, "ttl", ["ExpirationMap::try_" + op], EMB, timeout=1200, cover_tags=[op], alias_of="c05_em_step_" + op)
H("C03", "c03_store_lookup_ttl", "store", STF, SB + TTLB + "; lookup at now", timeout=1200, cover_tags=["lookup"])
P("C09", [LOCKS, CLOCK])
H("C09", "c09_store_veto_update", "store", STF, SB + TTLB + "; validator vetoes; expiry index not built", timeout=1200, cover_tags=["update"], cover_optional=["update applied"])
H("C09", "c09_store_veto_insert", "store", STF, SB + TTLB + "; validator vetoes; expiry index not built", timeout=1200, cover_tags=["insert"], cover_optional=["insert replaces a resident"])
H("C09", "c09_store_veto_update_em", "store", STF, SB + TTLB + "; validator vetoes; expiry index asserted unchanged", timeout=1800, cover_tags=["update"], cover_optional=["update applied"], mem_gb=28)
H("C09", "c09_store_veto_insert_em", "store", STF, SB + TTLB + "; validator vetoes; expiry index asserted unchanged", timeout=1800, cover_tags=["insert"], cover_optional=["insert replaces a resident"], mem_gb=28)

# ------------------------------------------------------------------ cache-level (parked cache)
CHAN = "crossbeam-channel operations are replaced by a bounded-FIFO contract (Sender::try_send/send, Receiver::try_recv; select!{send,default} only in its 'not ready' outcome): Kani cannot compile crossbeam (TLS destructors)"
ADDC = "LFUPolicy::add is replaced by a contract stub over the same real PolicyInner that over-approximates every admission/eviction decision (DESIGN 3.7): oversize -> refused; resident -> costs.update; room -> admitted; otherwise <= 2 arbitrary residents evicted and the newcomer admitted (only if it then fits) or rejected"
MREC = "Metrics::add/is_op/clear/track_eviction are replaced by a no-op (metrics off) or an 11-counter recorder (metrics on); the real striped implementation is decided by c17_metrics_inner"
PARK = "parked cache: real ShardedMap + ExpirationMap + LFUPolicy + RingStripe + Cache + CacheProcessor wired as finalize() does, no thread spawned; the harness calls the real handle_insert_event / handle_clear_event / handle_cleanup_event"
PF = ["CacheProcessor::handle_insert_event", "CacheProcessor::handle_item", "CacheProcessor::handle_cleanup_event", "ShardedMap::try_insert", "ShardedMap::try_remove", "ShardedMap::try_cleanup", "LFUPolicy::update", "LFUPolicy::remove", "LFUPolicy::cost", "SampledLFU::*", "ExpirationMap::*"]
PB = "arbitrary quiescent state with <= 2 residents (arbitrary keys, charges <= 2^40, TTLs <= 4 s or none) satisfying I-SP, I-P, I-EM; both ignore_internal_cost settings; arbitrary addressed key; one processor event"
ARCD = "Arc::drop_slow is replaced by a leak (no property is about destructors; CBMC cannot see reference counts through the Arc allocation)"
CACHE_ASS = [LOCKS, CLOCK, CHAN, ADDC, MREC, PARK, ARCD]
HEAVY = {"c06_proc_new", "c08_proc_new", "c16_proc_new", "c01_proc_new", "c06_proc_tick", "c08_proc_tick", "c05_proc_tick", "c16_proc_tick"}
def PH(pid, name, ev, what, tier="quick", **kw):
    if name in HEAVY:
        # 17-20 M variables: thorough tier only, one at a time with a 40 GB limit
        H(pid, name, "cache::sync", PF, PB + ": " + what, tier="thorough", timeout=5400, mem_gb=40, cover_tags=[ev], **kw)
    else:
        H(pid, name, "cache::sync", PF, PB + ": " + what, tier=tier, timeout=1800, cover_tags=[ev], **kw)
P("C06", CACHE_ASS)
PH("C06", "c06_proc_new", "new", "a New item (arbitrary cost, TTL); asserts I-SP and len")
PH("C06", "c06_proc_update", "update", "an Update item; asserts I-SP and len")
PH("C06", "c06_proc_delete", "delete", "a Delete item; asserts I-SP and len")
PH("C06", "c06_proc_tick", "tick", "a cleanup tick at an arbitrary instant <= 8 s later; asserts I-SP and len")
P("C08", CACHE_ASS)
PH("C08", "c08_proc_new", "new", "a New item; asserts the callback accounting")
PH("C08", "c08_proc_delete", "delete", "a Delete item; asserts the callback accounting")
PH("C08", "c08_proc_tick", "tick", "a cleanup tick; asserts the callback accounting")
P("C16", CACHE_ASS)
PH("C16", "c16_proc_new", "new", "a New item; asserts charge = cost + overhead and reported costs")
PH("C16", "c16_proc_update", "update", "an Update item; asserts the re-charge")
PH("C16", "c16_proc_tick", "tick", "a cleanup tick; asserts the reported cost", tier="thorough")
IDX["C01"]["assumptions"] += [CHAN, ADDC, MREC, PARK, ARCD]
PH("C01", "c01_proc_new", "new", "a New item; asserts I-P")
IDX["C05"]["assumptions"] += [CHAN, ADDC, MREC, PARK, ARCD]
PH("C05", "c05_proc_tick", "tick", "a cleanup tick; asserts only-expired / all-overdue")

CLI = ["Cache::try_update (client half of insert / insert_with_ttl / insert_if_present)", "ShardedMap::try_update", "ExpirationMap::try_update", "Coster::cost", "CacheCallback::on_exit", "Cache::get"]
CB2 = "arbitrary quiescent state with <= 2 residents (with or without TTL) satisfying I-SP/I-P/I-EM; arbitrary key, cost, TTL <= 4 s, only_update flag, validator answer, Coster table"
IDX["C02"]["assumptions"] += [CHAN, ADDC, MREC, PARK, ARCD]
H("C02", "c02_client_insert", "cache::sync", CLI, CB2 + "; asserts immediate replacement / untouched store", timeout=1800, cover_tags=["client"])
H("C08", "c08_client_insert", "cache::sync", CLI, CB2 + "; asserts the callback accounting", timeout=1800, cover_tags=["client"])
H("C16", "c16_client_insert", "cache::sync", CLI, CB2 + "; asserts the queued cost (explicit or Coster)", timeout=1800, cover_tags=["client"])
REM = ["Cache::try_remove", "Cache::get", "ShardedMap::try_remove", "CacheProcessor::handle_item(Delete)", "LFUPolicy::remove"]
H("C08", "c08_client_remove", "cache::sync", REM, "arbitrary quiescent state with <= 2 residents (no TTL); remove of an arbitrary key, then the queued Delete is processed; callback accounting", timeout=1800, cover_tags=["client"])
H("C08", "c08_remove_full_buffer", "cache::sync", ["Cache::try_remove", "ShardedMap::try_remove", "CacheCallback::on_exit (call site)"], "insert buffer of size 1 already full; <= 1 resident; remove of an arbitrary key", timeout=1800)
H("C06", "c06_client_remove", "cache::sync", REM, "arbitrary quiescent state with <= 2 residents (no TTL); remove of an arbitrary key, then the queued Delete is processed; I-SP", timeout=1800, cover_tags=["client"])

# ---- C11
P("C11", CACHE_ASS)
H("C11", "c11_clear_seq", "cache::sync", ["Cache::clear", "LFUPolicy::clear", "ShardedMap::clear", "Metrics::clear (call site)", "CacheProcessor::handle_clear_event", "CacheCleaner::clean", "CacheCleaner::handle_item", "Cache::get", "Cache::len"],
  "arbitrary quiescent state with <= 2 residents (no TTL) plus optionally one buffered New item; clear(), then the processor handles the clear signal", timeout=1800)
H("C11", "c11_reuse_after_clear", "cache::sync", ["Cache::clear", "ShardedMap::clear", "Cache::try_update", "CacheProcessor::handle_item(New)", "CacheProcessor::handle_cleanup_event", "ShardedMap::try_cleanup", "ExpirationMap::*"],
  "one resident with an arbitrary TTL <= 4 s; clear(); the key is re-inserted <= 2 s later with an arbitrary TTL or none; cleanup tick <= 8 s later", timeout=7200, mem_gb=50, tier="thorough")
# ---- C09 (cache level)
IDX["C09"]["assumptions"] += [CHAN, ADDC, MREC, PARK, ARCD, "Cache::try_insert_in itself cannot be compiled by Kani (its select! builds a dyn SelectHandle whose vtable reaches thread-locals): insert_if_present is decided through its pre-select half Cache::try_update(.., only_update = true); the closed-flag test and the enqueue are by reading"]
H("C09", "c09_if_present_api", "cache::sync", CLI, "arbitrary quiescent state with <= 2 residents; optionally a buffered, not yet applied New item for the same key; insert_if_present's client half with arbitrary key/cost and symbolic validator answer", timeout=1800)
H("C09", "c09_client_insert", "cache::sync", CLI, CB2 + "; asserts vetoed / absent-key writes leave the store untouched", timeout=1800, cover_tags=["client"], alias_of="c02_client_insert")
# ---- C18 (cache level)
IDX["C18"]["assumptions"] += [CHAN, ADDC, MREC, PARK, ARCD]
for op in ("lookup", "insert", "remove"):
    # the insert variant takes ~13 min on its own: thorough tier (a quick command should stay well under 15 min)
    H("C18", "c18_cache_isolation_" + op, "cache::sync", ["Cache::get", "Cache::get_mut", "Cache::get_ttl", "Cache::try_update", "Cache::try_remove", "CacheProcessor::handle_item", "KeyBuilder::build_key"],
      "a key builder that forces two keys onto one index hash with different non-zero conflict hashes; first key resident (created <= 4 s ago, TTL <= 4 s or none: possibly expired but unswept); " + op + " of the second key, processed to quiescence", timeout=2400 if op == "insert" else 1800, mem_gb=20, cover_tags=[op], tier="thorough" if op == "insert" else "quick")
ISOF = ["Cache::try_remove", "CacheProcessor::handle_item(Delete)", "ShardedMap::try_remove", "ShardedMap::expiration", "LFUPolicy::remove", "KeyBuilder::build_key"]
ISOB = "a key builder that forces two keys onto one index hash with different non-zero conflict hashes; first key resident (created <= 4 s ago, TTL <= 4 s or none: possibly expired but unswept) and charged; remove of the second, absent key, its Delete processed"
H("C06", "c06_colliding_remove", "cache::sync", ISOF, ISOB + ": the resident key stays resident AND charged", timeout=1800, mem_gb=20, cover_tags=["remove"], alias_of="c18_cache_isolation_remove")
H("C08", "c08_colliding_remove", "cache::sync", ISOF, ISOB + ": no callback fires for the resident value", timeout=1800, mem_gb=20, cover_tags=["remove"], alias_of="c18_cache_isolation_remove")
H("C18", "c18_store_update_ttl", "store", STF, SB + TTLB + "; the addressed entry may be expired but unswept and the conflict hash may differ: the store still answers Conflict and leaves the resident entry untouched", timeout=1200, cover_tags=["update"], cover_optional=["update vetoed"], alias_of="c04_store_update_ttl")
IDX["C18"]["assumptions"] += [LOCKS, CLOCK]
# ---- C20
P("C20", CACHE_ASS + [RNG, "std::thread::spawn is stubbed by panic!() in c20_finalize_rejects_zero (the three validation errors return before any thread is spawned; what finalize does after validation is outside)"])
for tag in ("n0", "mc0", "bs0"):
    H("C20", "c20_finalize_rejects_" + tag, "cache::sync", ["CacheBuilder::finalize", "CacheBuilder::new_with_key_builder", "CacheBuilderCore::set_buffer_size", "CacheBuilderCore::set_hasher"], "one of num_counters / max_cost / buffer size is a concrete zero (so that validation returns before the construction code), the other two arbitrary", timeout=900, cover_tags=[tag])
BSET = ["CacheBuilderCore::set_num_counters", "set_max_cost", "set_buffer_items", "set_buffer_size", "set_metrics", "set_ignore_internal_cost", "set_cleanup_duration", "set_key_builder", "set_coster", "set_update_validator", "set_callback", "set_hasher"]
H("C20", "c20_builder_core_setters", "cache::builder", BSET, "one setter call (any of the 12, arbitrary argument) from an arbitrary builder state: all scalar parameters arbitrary (full width), the four optional components present; instantiated for u64 keys/values", timeout=600)
H("C20", "c20_builder_wrapper_setters", "cache::sync", ["CacheBuilder::" + x.split("::")[-1] for x in BSET], "one setter call of the public (sync) CacheBuilder from an arbitrary builder state; AsyncCacheBuilder is the same macro text (impl_builder!) and is not instantiated", timeout=600)
H("C20", "c20_closed_is_inert", "cache::sync", ["Cache::get", "Cache::get_mut", "Cache::try_remove", "Cache::clear", "Cache::wait", "Cache::close"], "arbitrary quiescent state with <= 2 residents, closed flag set, arbitrary key", timeout=1800)
H("C20", "c20_sketch_new_widths", "sketch", ["CountMinSketch::new", "CountMinSketch::increment", "CountMinSketch::estimate"], "num_counters symbolic in [1, 65536] (includes 1..70, powers of two or not)", timeout=900, alias_of="c13_sketch_new_widths")
# ---- C12 (sequential slice only)
P("C12", CACHE_ASS + ["crossbeam's blocking Sender::send on the rendezvous stop channels is replaced by the FIFO contract accepting the message (= the worker took it); zero-sized messages (clear / stop signals) are counted",
                      "NOT decided: concurrent close() calls, operations racing a close, deadlock freedom on the rendezvous channels, that the two workers terminate (after close() or when every handle is dropped): threads / tasks cannot be executed by Kani"])
H("C12", "c12_close_seq", "cache::sync", ["Cache::close", "Cache::clear", "LFUPolicy::close", "Cache::get", "Cache::get_mut", "Cache::try_remove", "Cache::wait"], "arbitrary quiescent state with <= 2 residents; the real close(), a second close(), then get / get_mut / remove / clear / wait with an arbitrary key", timeout=1800)
H("C12", "c12_closed_is_inert", "cache::sync", ["Cache::get", "Cache::get_mut", "Cache::try_remove", "Cache::clear", "Cache::wait", "Cache::close"], "arbitrary quiescent state with <= 2 residents, closed flag set, arbitrary key", timeout=1800, alias_of="c20_closed_is_inert")
# ---- C10
P("C10", CACHE_ASS + ["wg::WaitGroup::wait (Condvar parking) is replaced by: run the parked processor to quiescence, then assert the WaitGroup counter is zero - on one thread 'counter still positive' IS 'blocks forever'; WaitGroup::new/add/done/waitings run as real code", "NOT decided: races of wait() with close(), barrier semantics for other threads' calls, real wake-ups (DESIGN 8)"])
WF = ["Cache::wait", "Cache::try_update", "Cache::try_remove", "Cache::clear", "CacheProcessor::handle_item(Wait)", "CacheCleaner::handle_item(Wait)", "wg::WaitGroup::new/add/done/waitings"]
# ~14 min on its own: thorough tier (a quick command should stay well under 15 min); the in-flight, cleaner-path and full-buffer variants stay quick
H("C10", "c10_wait_barrier", "cache::sync", WF, "arbitrary quiescent state with <= 2 residents and room for one more entry; optionally one insert and one remove of arbitrary keys before wait()", timeout=2400, mem_gb=20, tier="thorough")
H("C10", "c10_wait_vs_clear", "cache::sync", WF, "as c10_wait_barrier, with a clear() landing after the Wait marker was queued so that the cleaner meets the marker", timeout=2400, mem_gb=20)
H("C10", "c10_wait_inflight", "cache::sync", WF, "one insert of an absent key with room, already taken off the buffer by the processor (buffer empty) but not yet applied when wait() is called", timeout=2400, mem_gb=20)
H("C10", "c10_wait_full_buffer", "cache::sync", WF, "insert buffer of size 1 already full", timeout=1800)
# ---- C15
P("C15", CACHE_ASS + ["the body of LFUPolicy::push is a crossbeam select! that Kani cannot compile; in c15_ring_batches / c15_get_records push is replaced by a recorder that notes every handed-over batch and answers kept / dropped / error as the solver chooses. The kept/dropped accounting inside push (KeepGets / DropGets) and the bounded(3) queue itself are outside the claim"])
H("C15", "c15_ring_batches", "ring", ["RingStripe::new", "RingStripe::push"], "buffer_items symbolic in 0..3, 1..5 lookups of arbitrary keys, arbitrary answers of the policy", timeout=1200)
H("C15", "c15_batch_reset", "policy", TLF + ["TinyLFU::increments"], "a flushed batch of 4 keys applied across an aging reset (period 1..3): no key of the batch is lost", timeout=900, alias_of="c13_tinylfu_batch_reset")
H("C15", "c15_worker_applies", "policy::sync", ["PolicyProcessor::handle_items", "TinyLFU::increments", "TinyLFU::increment", "TinyLFU::estimate"], "cleared TinyLFU (4x4-byte sketch, 512-bit doorkeeper, 1..3 probes, samples > 4), batch of 1..3 arbitrary keys, or a receive error", timeout=1200)
H("C15", "c15_get_records", "cache::sync", ["Cache::get", "Cache::get_mut", "RingStripe::push", "Metrics::add (call sites)"], "buffer_items = 1, <= 1 resident, arbitrary key, get or get_mut, then the same on a closed cache", timeout=1800)
# ---- C17
IDX["C17"]["assumptions"] += [CHAN, ADDC, MREC, PARK, ARCD, "life-expectancy tracking: track_admission never inserts into start_ts (its insert is guarded by len > num_to_keep), so no entry is ever tracked and the tracked-eviction clause holds vacuously (observation O1)", "sets_dropped / gets_kept / gets_dropped are updated inside crossbeam select! arms that Kani cannot compile: by reading only"]
H("C17", "c17_metrics_stripe_index", "metrics", ["MetricsInner::add (index arithmetic)"], "every 64-bit hash", timeout=300)
H("C17", "c17_metrics_inner", "metrics", ["MetricsInner::new", "MetricsInner::add", "MetricsInner::get", "MetricsInner::ratio", "MetricsInner::clear"], "the real 11 x 256 striped atomics; two arbitrary counter types, hashes and deltas < 2^62", timeout=7200, mem_gb=40, tier="thorough", fs_array=64)
MCS = ["MetricsInner::add", "MetricsInner::get", "MetricsInner::clear", "Histogram::clear"]
MCB = "the real MetricsInner over a map holding one counter type (Hit; all 256 slots real atomics; every type has the same array type and goes through the same code), two arbitrary 64-bit hashes, deltas < 2^62"
H("C17", "c17_metrics_clear_stripes", "metrics", MCS, MCB, timeout=1500, mem_gb=24, tier="thorough", alias_of="c11_metrics_clear_stripes")
H("C11", "c11_metrics_clear_stripes", "metrics", MCS, MCB, timeout=1500, mem_gb=24, tier="thorough")
H("C17", "c17_cache_counts", "cache::sync", ["CacheProcessor::handle_item", "CacheProcessor::track_admission", "LFUPolicy::add (contract)", "LFUPolicy::update", "LFUPolicy::remove", "SampledLFU::update (metrics arm)"], "metrics on (recorder); <= 1 resident; one Update / Delete item for an arbitrary key (the New event's counters: c17_add_metrics_n2 and the wiring harness)", timeout=1800)
H("C17", "c15_get_records", "cache::sync", ["Cache::get", "Cache::get_mut", "Metrics::add (call sites)"], "hits + misses == lookups on the open cache (see C15)", timeout=1800)

SCF = ["ShardedMap::try_cleanup", "ExpirationMap::try_cleanup", "ShardedMap::expiration", "ShardedMap::try_remove", "LFUPolicy::cost", "LFUPolicy::remove", "Time::is_expired", "Time::is_zero"]
SCB = "one resident entry (with or without TTL, charged) that is filed properly, or not filed, plus optionally a stale listing of its key under an arbitrary bucket within 6 s of now; cleanup pass at an arbitrary instant <= 8 s later"
IDX["C05"]["assumptions"] += [ARCD, MREC]
H("C05", "c05_store_cleanup", "store", SCF, SCB, timeout=7200, mem_gb=44, tier="thorough")
IDX["C04"]["assumptions"] += [ARCD, MREC]
H("C04", "c04_store_cleanup", "store", SCF, SCB, timeout=7200, mem_gb=44, tier="thorough", alias_of="c05_store_cleanup")

WIRE = ["CacheProcessor::handle_insert_event", "CacheProcessor::handle_item(New)", "CacheProcessor::calculate_internal_cost", "CacheProcessor::track_admission", "CacheProcessor::on_evict", "CacheProcessor::prepare_evict", "CacheCallback::on_reject/on_evict (call sites)"]
WIREB = "every outcome of the policy (arbitrary verdict; no list or a list of 0..2 arbitrary victims) and every answer of the store (each victim found or not); arbitrary key, conflict, cost, TTL; both ignore_internal_cost settings"
WIREA = "in c06_new_wiring LFUPolicy::add returns arbitrary outputs without touching the policy, and ShardedMap::try_insert / try_remove are replaced by recorders (the operations themselves are decided by the store step lemmas and the SampledLFU/contract lemmas): the harness decides which operations and callbacks the New arm issues"
for pid in ("C06", "C08", "C16"):
    IDX[pid]["assumptions"].append(WIREA)
H("C06", "c06_new_wiring", "cache::sync", WIRE, WIREB, timeout=1800, cover_tags=["new"])
H("C08", "c08_new_wiring", "cache::sync", WIRE, WIREB, timeout=1800, cover_tags=["new"], alias_of="c06_new_wiring")
H("C16", "c16_new_wiring", "cache::sync", WIRE, WIREB, timeout=1800, cover_tags=["new"], alias_of="c06_new_wiring")
IDX["C17"]["assumptions"].append(WIREA)
H("C17", "c17_new_wiring", "cache::sync", WIRE, WIREB + "; keys_added counts exactly the admissions", timeout=1800, cover_tags=["new"], alias_of="c06_new_wiring")

# cross-property aliases (same harness function, decided once per tree thanks to the verdict cache)
H("C02", "c02_client_remove", "cache::sync", REM, "remove of an arbitrary key from an arbitrary quiescent state, then the queued Delete is processed: the key is unretrievable from the moment remove returns and stays so", timeout=1800, cover_tags=["client"], alias_of="c08_client_remove")
H("C03", "c03_em_step_update", "ttl", ["ExpirationMap::try_update"], EMB + "; re-insert replaces the deadline: with a TTL the key is filed under the new deadline, without one it is no longer filed", timeout=1200, cover_tags=["update"], alias_of="c05_em_step_update")
IDX["C03"]["assumptions"] += [ARCD, MREC]
H("C03", "c03_store_cleanup", "store", SCF, SCB + "; an entry without TTL never becomes invisible because of time", timeout=7200, mem_gb=44, tier="thorough", alias_of="c05_store_cleanup")
H("C11", "c11_store_cleanup", "store", SCF, SCB + "; the stale listing models what clear() leaves behind in the expiry index", timeout=7200, mem_gb=44, tier="thorough", alias_of="c05_store_cleanup")

# ---- the real LFUPolicy::add (C07, C01, C04)
UFA = "TinyLFU::estimate is replaced by an uninterpreted function (an arbitrary fixed popularity in [0,16] per key): the rule is stated in terms of the estimator's values and add does not modify the estimator; the estimator itself is decided by the C13 harnesses"
ADDF = ["LFUPolicy::add (the real admission / eviction loop)", "SampledLFU::fill_sample", "SampledLFU::room_left", "SampledLFU::update", "SampledLFU::increment", "SampledLFU::remove"]
ADDB = "arbitrary policy state satisfying I-P with <= %d residents in arbitrary map slots (every iteration order), charges <= 2^40, max_cost in [-2^40, 2^40] (over-budget pre-states included), arbitrary popularity per key, arbitrary incoming (key, cost); fewer than five residents, so 'all if fewer' is the sampling regime; victim lists with stale duplicates (D8) are allowed for"
P("C07", [LOCKS, MREC, ARCD, UFA, "NOT decided: which five residents are sampled when there are five or more (needs >= 6 residents: outside the 3-slot map model)"])
H("C07", "c07_add_rule_n2", "policy::sync", ADDF, ADDB % 2, timeout=2400, mem_gb=24)
H("C07", "c07_add_rule_n3", "policy::sync", ADDF, ADDB % 3, timeout=7200, mem_gb=40, tier="thorough")
IDX["C01"]["assumptions"] += [UFA, ARCD]
H("C01", "c01_add_rule_n2", "policy::sync", ADDF, ADDB % 2 + "; asserts: every admission re-establishes total <= max_cost, oversize never admitted, I-P", timeout=2400, mem_gb=24, alias_of="c07_add_rule_n2")
H("C01", "c01_add_rule_n3", "policy::sync", ADDF, ADDB % 3, timeout=7200, mem_gb=40, tier="thorough", alias_of="c07_add_rule_n3")
H("C01", "c01_add_real_n2", "policy::sync", ADDF + ["TinyLFU::estimate", "CountMinSketch::estimate", "Bloom::contains"], "as c01_add_rule_n2 but with the REAL estimator (arbitrary 4x1-byte sketch, 64-bit doorkeeper)", timeout=7200, mem_gb=40, tier="thorough")
IDX["C17"]["assumptions"] += [UFA]
H("C17", "c17_add_metrics_n2", "policy::sync", ADDF + ["Metrics::add (call sites in add)"], ADDB % 2 + "; metrics on (recorder): eviction / admission / rejection counters of one add call", timeout=2400, mem_gb=24)
H("C17", "c17_add_metrics_n3", "policy::sync", ADDF + ["Metrics::add (call sites in add)"], ADDB % 3 + "; metrics on (recorder)", timeout=7200, mem_gb=40, tier="thorough")
IDX["C04"]["assumptions"] += [UFA]
H("C04", "c04_room_admits", "policy::sync", ADDF, ADDB % 2 + "; asserts: with room a new key is always admitted and nothing is evicted", timeout=2400, mem_gb=24, alias_of="c07_add_rule_n2")

# ---- C19 (async flavour, processor side only)
P("C19", [LOCKS, CLOCK, MREC, ARCD, WIREA, "in c19_async_tick ExpirationMap::try_cleanup is replaced by a stand-in handing out an arbitrary single listing (see C05)", "async-channel endpoints are only created, never operated: the harness hands items to the real handle_insert_event / handle_cleanup_event directly",
          "async client methods: an `async fn` of AsyncCache is polled ONCE with a no-op waker; async_channel::Sender::try_send (what the Send future calls first, completing at once when it succeeds) is replaced by a bounded-FIFO contract (capacity 2) whose buffer has room, so the method runs to completion in that poll; futures::select!'s shuffle of its (single) future is replaced by the identity",
          "NOT decided: a suspended send (full insert buffer: the default arm of the async insert's select!, sets_dropped), AsyncCache::{wait, close}, get with a full ring (AsyncLFUPolicy::push), the task loops, executors, wakers, async_io::Timer (Kani cannot execute them / event-listener does not finish)"])
AF = ["cache::async::CacheProcessor::handle_insert_event", "handle_item (macro instantiated for the async Item/processor)", "cache::async::CacheProcessor::handle_cleanup_event", "ShardedMap::try_cleanup_async", "AsyncLFUPolicy::{update, remove, cost, contains}"]
H("C19", "c19_async_proc_update_delete", "cache::r#async", AF, "async processor, <= 1 resident, arbitrary key: one Update or Delete item; same assertions as the sync flavour", timeout=1800, features="sync,async", module_override="cache::r#async::verif_harness::both")
H("C19", "c19_async_tick", "cache::r#async", AF, "async processor; one entry resident or not; the expiry index hands out nothing or one arbitrary listing (stand-in); cleanup tick <= 6 s later through handle_cleanup_event -> try_cleanup_async", timeout=7200, mem_gb=50, tier="thorough", features="sync,async", module_override="cache::r#async::verif_harness::both")
H("C19", "c19_async_new_wiring", "cache::r#async", AF, WIREB + "; async processor", timeout=1800, features="sync,async", module_override="cache::r#async::verif_harness::both")

ACF = ["AsyncCache::try_update", "AsyncCache::try_insert_in", "AsyncCache::try_remove", "AsyncCache::get", "AsyncCache::get_mut", "AsyncCache::clear", "async_channel::Send::poll (real, above the try_send contract)", "ShardedMap::{try_update, try_remove, get, get_mut, clear}", "AsyncLFUPolicy::clear", "AsyncRingStripe::push (ring not full)"]
ACB = "AsyncCache wired as AsyncCacheBuilder::finalize wires it (no task spawned), <= 1 resident (arbitrary key, value tag, charge; TTL <= 4 s or none), insert buffer of capacity 2 with room, buffer_items 64, TransparentKeyBuilder; one client call with arbitrary key / cost / flags"
AKW = dict(features="sync,async", module_override="cache::r#async::verif_harness::both")
H("C19", "c19_async_client_insert", "cache::r#async", ACF, ACB + "; try_update (a plain fn in both flavours): immediate replacement, veto, what is queued, TTL", timeout=1800, **AKW)
H("C19", "c19_async_client_insert_send", "cache::r#async", ACF, ACB + "; the whole async insert path incl. closed flag and select!{send, default} with room in the buffer", timeout=2400, **AKW)
H("C19", "c19_async_client_remove_wiring", "cache::r#async", ACF, ACB + "; try_remove between a store recorder (found / not found) and the FIFO contract: a Delete is queued in both cases", timeout=1800, **AKW)
H("C19", "c19_async_client_lookup", "cache::r#async", ACF, ACB + "; get / get_mut on an open or closed cache: hit iff resident and TTL not elapsed; hit/miss counted once", timeout=2400, **AKW)
H("C19", "c19_async_client_clear", "cache::r#async", ACF, ACB + "; clear on an open or closed cache", timeout=1800, **AKW)
H("C19", "c19_async_client_remove", "cache::r#async", ACF, ACB + "; try_remove over the real store", timeout=5400, mem_gb=28, tier="thorough", **AKW)
GRB = ACB.replace("buffer_items 64", "buffer_items 1") + "; get / get_mut on an open or closed cache: AsyncRingStripe::push -> AsyncLFUPolicy::push -> select!{send, default} on the policy's unbounded channel (FIFO contract): one batch [k], KeepGets + 1"
H("C19", "c19_async_get_records", "cache::r#async", ACF + ["AsyncRingStripe::push (ring full)", "AsyncLFUPolicy::push"], GRB, timeout=2400, **AKW)
H("C15", "c15_async_get_records", "cache::r#async", ACF + ["AsyncRingStripe::push (ring full)", "AsyncLFUPolicy::push"], GRB, timeout=2400, alias_of="c19_async_get_records", **AKW)
ARB = "AsyncCache wired as AsyncCacheBuilder::finalize wires it (no task spawned), empty store, buffer_items symbolic in 0..2, two get() calls with arbitrary 64-bit keys on the open cache; the policy's unbounded channel is the FIFO contract (<= 2 pending batches)"
ARF = ["AsyncCache::get", "AsyncRingStripe::push", "AsyncLFUPolicy::push (send arm)", "async_channel::Send::poll (real, above the try_send contract)"]
H("C15", "c15_async_ring_batches", "cache::r#async", ARF, ARB, timeout=2400, mem_gb=40, tier="thorough", **AKW)
H("C19", "c19_async_ring_batches", "cache::r#async", ARF, ARB, timeout=2400, mem_gb=40, tier="thorough", alias_of="c15_async_ring_batches", **AKW)
H("C17", "c17_async_get_records", "cache::r#async", ACF + ["AsyncRingStripe::push (ring full)", "AsyncLFUPolicy::push"], GRB + "; gets_kept / gets_dropped accounting of the async flavour", timeout=2400, alias_of="c19_async_get_records", **AKW)
IDX["C15"]["assumptions"] += [MREC, ARCD, "async flavour: async_channel::Sender::try_send replaced by a FIFO contract, one poll with a no-op waker, futures select! shuffle replaced by the identity (see C19)"]
H("C12", "c12_async_insert_closed", "cache::r#async", ACF, ACB + "; closed flag set or not: insert on a closed AsyncCache returns false and has no effect", timeout=2400, alias_of="c19_async_client_insert_send", **AKW)
H("C12", "c12_async_lookup_closed", "cache::r#async", ACF, ACB + "; closed flag set or not: get / get_mut on a closed AsyncCache return nothing", timeout=2400, alias_of="c19_async_client_lookup", **AKW)
H("C12", "c12_async_clear_closed", "cache::r#async", ACF, ACB + "; closed flag set or not: clear on a closed AsyncCache has no effect", timeout=1800, alias_of="c19_async_client_clear", **AKW)
H("C09", "c09_async_client_insert", "cache::r#async", ACF, ACB + "; insert_if_present / vetoed updates through the async flavour's own copy of try_update", timeout=1800, alias_of="c19_async_client_insert", **AKW)
IDX["C09"]["assumptions"] += [MREC, ARCD]

# the sweep through the async flavour (a plain loop; the sync try_cleanup's iterator chain needs > 40 GB and is thorough-only)
for pid, nm in (("C05", "c05_async_cleanup"), ("C04", "c04_async_cleanup"), ("C11", "c11_async_cleanup"), ("C03", "c03_async_cleanup")):
    H(pid, nm, "cache::r#async", AF, "async processor, <= 1 resident with or without TTL, cleanup tick <= 6 s later through try_cleanup_async: only elapsed TTLs are reclaimed (never an entry without TTL), overdue ones always", timeout=7200, mem_gb=50, tier="thorough", features="sync,async", module_override="cache::r#async::verif_harness::both", alias_of="c19_async_tick")

SWF = ["ShardedMap::try_cleanup (the sweep's per-key decision and removal)", "ShardedMap::expiration", "ShardedMap::try_remove", "LFUPolicy::cost", "LFUPolicy::remove", "Time::is_expired", "Time::is_zero"]
SWB = "one entry (with or without TTL, charged) resident or not; the expiry index hands out nothing or ONE arbitrary listing (any key, any conflict: proper or stale, due or not); sweep at an arbitrary instant <= 6 s later"
# the handed-out map holds at most one listing: the collect() loop and the find_map loop inside it need 2 iterations;
# unwinding them to the global bound multiplies the sweep's closure 30 times (the unwinding assertions stay on)
SWU = [["extend_desugared", 3], ["Iterator>::try_fold", 3]]
SWA = "in the sweep harnesses ExpirationMap::try_cleanup is replaced by a stand-in that hands out an arbitrary single listing: an over-approximation of the index's content; what the real try_cleanup hands out is decided by c05_em_cleanup_due"
for pid, nm in (("C05", "c05_store_sweep"), ("C04", "c04_store_sweep"), ("C11", "c11_store_sweep"), ("C03", "c03_store_sweep")):
    IDX[pid]["assumptions"].append(SWA)
    if pid != "C05":
        H(pid, nm, "store", SWF, SWB, timeout=2400, mem_gb=24, alias_of="c05_store_sweep", unwindset=SWU)
    else:
        H(pid, nm, "store", SWF, SWB, timeout=2400, mem_gb=24, unwindset=SWU)

SWFA = ["ShardedMap::try_cleanup_async (the sweep's per-key decision and removal)", "ShardedMap::expiration", "ShardedMap::try_remove", "Time::is_expired", "Time::is_zero"]
for pid, nm in (("C05", "c05_store_sweep_async"), ("C04", "c04_store_sweep_async"), ("C11", "c11_store_sweep_async"), ("C03", "c03_store_sweep_async"), ("C19", "c19_store_sweep_async")):
    kw = {} if pid == "C05" else {"alias_of": "c05_store_sweep_async"}
    H(pid, nm, "store", SWFA, SWB + "; the async flavour's sweep (a plain loop; the sync flavour's iterator chain is thorough-tier only); policy cost/remove are recorders", timeout=7200, mem_gb=50, tier="thorough", features="sync,async", **kw)

# cross-property aliases added after round 6 of the seeded changes (the defect was caught, but by another property's check)
H("C07", "c07_new_wiring", "cache::sync", WIRE, WIREB + "; victims the policy evicted are removed from the store also when the newcomer is then rejected", timeout=1800, cover_tags=["new"], alias_of="c06_new_wiring")
IDX["C07"]["assumptions"] += [CHAN, MREC, PARK, ARCD, WIREA]
H("C01", "c01_colliding_remove", "cache::sync", ISOF, ISOB + ": the resident key stays charged, so charged total == cost of resident entries", timeout=1800, mem_gb=20, cover_tags=["remove"], alias_of="c18_cache_isolation_remove")
H("C04", "c04_slfu_step", "policy", ["SampledLFU::increment", "SampledLFU::remove", "SampledLFU::update", "SampledLFU::clear", "SampledLFU::contains"], "arbitrary SampledLFU with <= 3 residents in arbitrary slots satisfying I-P, arbitrary key/cost, one operation: a cost-lowering update gives the budget back (otherwise later inserts are refused although they fit)", timeout=900, alias_of="c01_slfu_step")
H("C16", "c16_builder_core_setters", "cache::builder", BSET, "one setter call (any of the 12) from an arbitrary builder state: ignore_internal_cost (which decides whether the per-entry overhead is charged) survives every other setter", timeout=600, alias_of="c20_builder_core_setters")
H("C20", "c20_ring_batches", "ring", ["RingStripe::new", "RingStripe::push"], "buffer_items symbolic in 0..3 (0 included: accepted by the builder), 1..5 lookups of arbitrary keys, arbitrary answers of the policy: no panic in the caller", timeout=1200, alias_of="c15_ring_batches")
# a refused write must leave deadline and expiry index alone: also what C03 (deadline) and C05 (reclaimed on time) rest on
H("C03", "c03_store_veto_update", "store", STF, SB + TTLB + "; validator vetoes: the resident entry keeps its deadline", timeout=1200, cover_tags=["update"], cover_optional=["update applied"], alias_of="c09_store_veto_update")
H("C05", "c05_store_veto_update_em", "store", STF, SB + TTLB + "; validator vetoes: the resident entry stays filed under its own deadline", timeout=1800, cover_tags=["update"], cover_optional=["update applied"], mem_gb=28, alias_of="c09_store_veto_update_em")
IDX["C05"]["assumptions"] += [LOCKS]
# more cross-property aliases
H("C02", "c02_new_wiring", "cache::sync", WIRE, WIREB + "; a New item for an already resident key (stale duplicate) must not overwrite the newer value", timeout=1800, cover_tags=["new"], alias_of="c06_new_wiring")
IDX["C02"]["assumptions"].append(WIREA)
H("C03", "c03_client_insert", "cache::sync", CLI, CB2 + "; re-inserting a resident key replaces its deadline", timeout=1800, cover_tags=["client"], alias_of="c02_client_insert")
IDX["C03"]["assumptions"] += [CHAN, ADDC, PARK]
H("C06", "c06_store_sweep", "store", SWF, SWB + "; the sweep un-charges exactly the entries it removes", timeout=2400, mem_gb=24, alias_of="c05_store_sweep", unwindset=SWU)
IDX["C06"]["assumptions"].append(SWA)

RACEF = ["CacheProcessor::handle_item(New) with the yield point between policy.add and store.try_insert", "Cache::clear", "LFUPolicy::clear", "ShardedMap::clear", "CacheProcessor::handle_clear_event"]
RACEB = "empty cache with room; one New item for an arbitrary key; optionally a client's clear() interposed (as a whole) between policy.add and store.try_insert; then the processor handles the clear signal"
H("C06", "c06_race_clear_in_new", "cache::sync", RACEF, RACEB, timeout=1800, mem_gb=20)
H("C11", "c11_race_clear_in_new", "cache::sync", RACEF, RACEB, timeout=1800, mem_gb=20, alias_of="c06_race_clear_in_new")

H("PROBE", "probe_new_n0_nottl", "cache::sync", [], "probe", timeout=1200, mem_gb=20)
H("PROBE", "probe_new_n0_ttl", "cache::sync", [], "probe", timeout=1200, mem_gb=20)
H("PROBE", "probe_new_n1_nottl", "cache::sync", [], "probe", timeout=1200, mem_gb=20)
for i in "1234":
    H("PROBE", "probe_part" + i, "cache::sync", [], "probe", timeout=1200, mem_gb=12)
H("PROBE", "c05_store_sweep_async", "store", [], "probe minisat", timeout=3000, mem_gb=28, features="sync,async", kani_args=["--solver", "minisat"])
H("PROBE", "c19_async_tick", "cache::r#async", [], "probe fewer checks", timeout=3000, mem_gb=28, features="sync,async", module_override="cache::r#async::verif_harness::both", kani_args=["--no-assertion-reach-checks", "--no-memory-safety-checks"])
H("PROBE", "c06_proc_new", "cache::sync", [], "probe", timeout=3000, mem_gb=28, cover_tags=["new"])
H("PROBE", "c06_proc_tick", "cache::sync", [], "probe", timeout=3000, mem_gb=28, cover_tags=["tick"])
H("PROBE", "c07_add_rule_n2", "policy::sync", [], "probe", timeout=3000, mem_gb=28)
H("PROBE", "c07_add_rule_n3", "policy::sync", [], "probe", timeout=3000, mem_gb=28)
H("PROBE", "c01_add_real_n2", "policy::sync", [], "probe", timeout=3000, mem_gb=28)
H("PROBE", "c01_add_real_n3", "policy::sync", [], "probe", timeout=3000, mem_gb=28)

json.dump(IDX, open(os.path.join(V, "harness_index.json"), "w"), indent=1)
print({k: len(v["harnesses"]) for k, v in IDX.items()})
