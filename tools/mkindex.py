#!/usr/bin/env python3
"""Source of /verif/harness_index.json (property -> harnesses with tier, limits, bounds text)."""
import json, os
V = os.path.dirname(os.path.dirname(os.path.abspath(__file__)))
IDX = {}


def P(pid, assumptions=()):
    IDX[pid] = {"assumptions": list(assumptions), "harnesses": []}


def H(pid, name, module, functions, bounds, tier="quick", timeout=600, mem_gb=16, **kw):
    d = {"name": name, "module": ("verif_harness" if module == "crate" else module + "::verif_harness"), "tier": tier, "timeout": timeout, "mem_gb": mem_gb,
         "functions": functions, "bounds": bounds}
    d.update(kw)
    IDX[pid]["harnesses"].append(d)


RNG = "RNG seeds of the sketch are arbitrary 64-bit values (stub of StdRng::next_u64/from_seed): more general than the real generator"

# ------------------------------------------------------------------ C13
P("C13", [RNG])
ROWF = ["CountMinRow::get", "CountMinRow::increment", "CountMinRow::reset", "CountMinRow::clear"]
SKF = ["CountMinSketch::increment", "CountMinSketch::estimate", "CountMinSketch::reset", "CountMinSketch::clear"]
H("C13", "c13_row_step_w4", "sketch", ROWF, "arbitrary row of 4 bytes (8 counters), arbitrary counter index, one operation", timeout=300)
H("C13", "c13_row_step_w1", "sketch", ROWF, "arbitrary row of 1 byte (2 counters), one operation", timeout=300)
H("C13", "c13_sketch_step_w4", "sketch", SKF, "arbitrary 4x4-byte sketch, arbitrary seeds, two arbitrary 64-bit hashes, one operation")
H("C13", "c13_sketch_step_w1", "sketch", SKF, "arbitrary 4x1-byte sketch (2 counters per row), arbitrary seeds, two arbitrary 64-bit hashes")
H("C13", "c13_sketch_new_widths", "sketch", ["CountMinSketch::new", "CountMinSketch::increment", "CountMinSketch::estimate"],
  "num_counters symbolic in [1, 65536]; arbitrary seeds; one arbitrary 64-bit hash", timeout=900)
TLF = ["TinyLFU::increment", "TinyLFU::estimate", "TinyLFU::try_reset", "TinyLFU::reset", "TinyLFU::clear", "Bloom::contains_or_add", "CountMinSketch::*"]
H("C13", "c13_tinylfu_step_w1", "policy", TLF, "arbitrary TinyLFU: 4x1-byte sketch, 64-bit doorkeeper with 1..3 probes, arbitrary w < samples <= 2^32; two arbitrary hashes; one operation")
H("C13", "c13_tinylfu_step_w4", "policy", TLF, "arbitrary TinyLFU: 4x4-byte sketch, 512-bit doorkeeper with 1..3 probes, arbitrary w < samples; two arbitrary hashes; one operation", timeout=900)
H("C13", "c13_tinylfu_batch", "policy", ["TinyLFU::increments"] + TLF, "cleared TinyLFU (4x4-byte sketch, 512-bit doorkeeper, 2 probes, samples > 4), batch of 4 arbitrary hashes", timeout=900)

# ------------------------------------------------------------------ C14
P("C14", ["the statistical clause (false-positive fraction within a constant factor of p) is not a solver-decidable statement; what is decided are membership and the structural premises of the textbook bound: all m bits individually addressable, each add sets exactly the prescribed <= k positions, geometry (m, k) consistent",
          "calc_size_by_wrong_positives (f64 ln/powf/ceil) is outside: CBMC's libm model is nondeterministic, so (capacity, rate) -> (bits, probes) is not decided; filters are built by literal or through the integer-ratio path of Bloom::new"])
BF = ["Bloom::set", "Bloom::is_set", "Bloom::add", "Bloom::contains", "Bloom::contains_or_add", "Bloom::reset", "Bloom::clear"]
H("C14", "c14_bits_addressable_512", "bbloom", ["Bloom::set", "Bloom::is_set"], "arbitrary 512-bit filter, arbitrary bit indexes i, j < 512")
H("C14", "c14_membership_128", "bbloom", BF, "arbitrary 128-bit filter (two words), probes 1..8, two arbitrary 64-bit hashes, one operation")
H("C14", "c14_membership_512", "bbloom", BF, "arbitrary 512-bit filter, probes 1..8, two arbitrary 64-bit hashes, one operation", tier="thorough", timeout=3600)
H("C14", "c14_membership_64", "bbloom", BF, "arbitrary 64-bit filter, probes 1..8, two arbitrary 64-bit hashes, one operation")
H("C14", "c14_add_sets_exactly_512", "bbloom", ["Bloom::add", "Bloom::is_set"], "arbitrary 512-bit filter, probes 1..8, arbitrary hash, arbitrary probe position")
H("C14", "c14_sizing", "bbloom", ["get_size", "Bloom::new (integer-ratio path)"], "capacity symbolic in [0, 65536], probes 1..8")

LOCKS = "parking_lot slow paths (lock_slow / lock_shared_slow / lock_exclusive_slow) are stubbed by panic!() and proved unreachable: locks are never contended on one thread"
CLOCK = "virtual clock: readings arbitrary (seconds < 2^41, every nanosecond value) but non-decreasing"

# ------------------------------------------------------------------ C03
P("C03", [CLOCK, LOCKS])
H("C03", "c03_time_kernel", "ttl", ["Time::is_expired", "Time::get_ttl", "Time::elapsed", "Time::unix", "Time::is_zero"],
  "full width: creation instant and TTL arbitrary with seconds < 2^40 and every nanosecond value; two arbitrary later readings now1 <= now2", timeout=900)

# ------------------------------------------------------------------ C05
P("C05", [CLOCK, LOCKS, "that the ticker really fires every cleanup interval (crossbeam tick / async_io Timer) is outside: decided is that ANY pass at or after deadline + 1s reclaims the entry, so the delay is bounded by one bucket width plus the distance to the next tick"])
H("C05", "c05_bucket_arith", "ttl", ["storage_bucket", "cleanup_bucket", "Time::unix", "Time::is_expired"],
  "full width: arbitrary entry (seconds < 2^40, all nanoseconds), arbitrary pass instant", timeout=900)
EMB = "map with one neighbour entry and optionally the subject key filed under an arbitrary old expiration; arbitrary old/new expirations (full width, zero TTL allowed)"
H("C05", "c05_em_step_insert", "ttl", ["ExpirationMap::try_insert"], EMB, timeout=1200, cover_tags=["insert"])
H("C05", "c05_em_step_update", "ttl", ["ExpirationMap::try_update"], EMB, timeout=1200, cover_tags=["update"])
H("C05", "c05_em_step_remove", "ttl", ["ExpirationMap::try_remove"], EMB, timeout=1200, cover_tags=["remove"])
H("C05", "c05_em_cleanup_due", "ttl", ["ExpirationMap::try_cleanup", "cleanup_bucket"],
  "two filed entries with arbitrary deadlines, cleanup pass at an arbitrary instant", timeout=1200)

# ------------------------------------------------------------------ C01
P("C01", [LOCKS, "costs and max_cost in [0, 2^40] / [-2^40, 2^40]: sums of realistic numbers of entries cannot overflow i64; cost overflow is outside the claim"])
H("C01", "c01_slfu_step", "policy", ["SampledLFU::increment", "SampledLFU::remove", "SampledLFU::update", "SampledLFU::clear", "SampledLFU::contains"],
  "arbitrary SampledLFU with <= 3 residents in arbitrary slots satisfying I-P, arbitrary key/cost, one operation")
H("C01", "c01_room_arith", "policy", ["SampledLFU::room_left", "SampledLFU::get_max_cost", "SampledLFU::update_max_cost"],
  "arbitrary SampledLFU with <= 3 residents, arbitrary cost and new max_cost")

# ------------------------------------------------------------------ C17
P("C17", [LOCKS])
H("C17", "c17_histogram_update", "histogram", ["Histogram::new", "Histogram::update", "Histogram::clear"],
  "the first 4 of the real power-of-two bounds (2,4,8,16; update is generic in the number of bounds, 16 bounds time out); arbitrary state with count == sum of buckets (two arbitrary buckets loaded), arbitrary sample in [0, 2^40]", timeout=900)

# ------------------------------------------------------------------ C18
P("C18", [LOCKS, CLOCK])
for t in ["bool", "u8", "u16", "u32", "u64", "usize", "i8", "i16", "i32", "i64", "isize"]:
    H("C18", "c18_transparent_" + t, "crate", ["TransparentKeyBuilder::hash_index", "TransparentKeyBuilder::hash_conflict", "KeyBuilder::build_key", "TransparentHasher::write_*", "TransparentKey::to_u64"],
      "every value of %s (full width), two arbitrary keys" % t, timeout=300)
H("C18", "c18_default_str_string_4", "crate", ["DefaultKeyBuilder::hash_index (SeaHasher)", "DefaultKeyBuilder::hash_conflict (xxh64)", "KeyBuilder::build_key"],
  "ASCII strings of 0..4 arbitrary bytes, arbitrary xxh64 seed; longer strings outside", timeout=900)

# ------------------------------------------------------------------ store step lemmas (C02, C03, C04, C09)
STF = ["ShardedMap::try_insert", "ShardedMap::try_update", "ShardedMap::try_remove", "ShardedMap::get", "ShardedMap::get_mut", "ShardedMap::len", "ExpirationMap::try_insert", "ExpirationMap::try_update", "ExpirationMap::try_remove", "ValueRefMut::write"]
SB = "arbitrary store with <= 2 entries (arbitrary keys, conflicts, values) satisfying I-EM, arbitrary addressed key/conflict/value, validator answer symbolic, one operation; 1 shard, 3-slot maps"
P("C02", [LOCKS, CLOCK])
H("C02", "c02_store_insert", "store", STF, SB + "; entries without TTL", cover_tags=["insert"])
H("C02", "c02_store_update", "store", STF, SB + "; entries without TTL", cover_tags=["update"])
H("C02", "c02_store_remove", "store", STF, SB + "; entries without TTL", cover_tags=["remove"])
H("C02", "c02_store_lookup", "store", STF, SB + "; entries without TTL; get, get_mut and an in-place write", cover_tags=["lookup"])
P("C04", [LOCKS, CLOCK])
TTLB = "; resident and new entries with or without TTL (creation instants within 4 s before an arbitrary now, TTLs <= 4 s + arbitrary nanoseconds)"
H("C04", "c04_em_store_insert", "store", STF, SB + TTLB, timeout=1200, cover_tags=["insert"])
H("C04", "c04_em_store_update", "store", STF, SB + TTLB, timeout=1200, cover_tags=["update"])
H("C04", "c04_em_store_remove", "store", STF, SB + TTLB, timeout=1200, cover_tags=["remove"])
H("C03", "c03_store_lookup_ttl", "store", STF, SB + TTLB + "; lookup at now", timeout=1200, cover_tags=["lookup"])
P("C09", [LOCKS, CLOCK])
H("C09", "c09_store_veto_update", "store", STF, SB + TTLB + "; validator vetoes", timeout=1200, cover_tags=["update"], cover_optional=["update applied"])
H("C09", "c09_store_veto_insert", "store", STF, SB + TTLB + "; validator vetoes", timeout=1200, cover_tags=["insert"], cover_optional=["insert replaces a resident"])

# ------------------------------------------------------------------ cache-level (parked cache)
CHAN = "crossbeam-channel operations are replaced by a bounded-FIFO contract (Sender::try_send/send, Receiver::try_recv; select!{send,default} only in its 'not ready' outcome): Kani cannot compile crossbeam (TLS destructors)"
ADDC = "LFUPolicy::add is replaced by a contract stub over the same real PolicyInner that over-approximates every admission/eviction decision (DESIGN 3.7): oversize -> refused; resident -> costs.update; room -> admitted; otherwise <= 2 arbitrary residents evicted and the newcomer admitted (only if it then fits) or rejected"
MREC = "Metrics::add/is_op/clear/track_eviction are replaced by a no-op (metrics off) or an 11-counter recorder (metrics on); the real striped implementation is decided by c17_metrics_inner"
PARK = "parked cache: real ShardedMap + ExpirationMap + LFUPolicy + RingStripe + Cache + CacheProcessor wired as finalize() does, no thread spawned; the harness calls the real handle_insert_event / handle_clear_event / handle_cleanup_event"
PF = ["CacheProcessor::handle_insert_event", "CacheProcessor::handle_item", "CacheProcessor::handle_cleanup_event", "ShardedMap::try_insert", "ShardedMap::try_remove", "ShardedMap::try_cleanup", "LFUPolicy::update", "LFUPolicy::remove", "LFUPolicy::cost", "SampledLFU::*", "ExpirationMap::*"]
PB = "arbitrary quiescent state with <= 2 residents (arbitrary keys, charges <= 2^40, TTLs <= 4 s or none) satisfying I-SP, I-P, I-EM; both ignore_internal_cost settings; arbitrary addressed key; one processor event"
P("C06", [LOCKS, CLOCK, CHAN, ADDC, MREC, PARK])
H("C06", "c06_proc_new", "cache::sync", PF, PB + ": a New item (arbitrary cost, TTL)", timeout=1800, cover_tags=["new"])
H("C06", "c06_proc_update", "cache::sync", PF, PB + ": an Update item", timeout=1800, cover_tags=["update"])
H("C06", "c06_proc_delete", "cache::sync", PF, PB + ": a Delete item", timeout=1800, cover_tags=["delete"])
H("C06", "c06_proc_tick", "cache::sync", PF, PB + ": a cleanup tick at an arbitrary instant <= 8 s later", timeout=1800, cover_tags=["tick"])

P("PROBE", [])
H("PROBE", "probe_fixture_only", "cache::sync", [], "probe", timeout=900, mem_gb=20)
H("PROBE", "probe_update_min", "cache::sync", [], "probe", timeout=900, mem_gb=20)
H("PROBE", "probe_em_update_small", "ttl", [], "probe", timeout=900, mem_gb=20, cover_tags=["update"])

json.dump(IDX, open(os.path.join(V, "harness_index.json"), "w"), indent=1)
print({k: len(v["harnesses"]) for k, v in IDX.items()})
